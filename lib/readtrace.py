"""Read-stack trace validation (ReadStack.tla / TraceReadStack.tla): runs the real dfs with the hook events of the read layers
switched on, and lets TLC replay them through the specification's step operators."""
import os, json
import common


KINDS = {"body", "volread", "cread", "cfill", "vread", "blk", "fread"}


STORAGE_KINDS = {"connect", "attach", "select", "cread"}


def record(argv, scratch, tag, ctx=None, timeout=60, cwd=None, kinds=None):
    """Run argv with BEEBTOOLS_VERIF_TRACE; returns (Outcome, [events]) with a leading ctx event."""
    tp = os.path.join(scratch, "rs-%s.ndjson" % tag)
    if os.path.exists(tp):
        os.unlink(tp)
    o = common.run(argv, timeout=timeout, cwd=cwd, env=dict(BEEBTOOLS_VERIF_TRACE=tp))
    evs = [dict(e="ctx", kind=(ctx or {}).get("kind", "none"), cyl=(ctx or {}).get("cyl", 0), spt=(ctx or {}).get("spt", 0),
                vols=[list(x) for x in (ctx or {}).get("vols", [])], group=(ctx or {}).get("group", ""))]
    if os.path.exists(tp):
        with open(tp) as f:
            for line in f:
                line = line.strip()
                if line:
                    e = json.loads(line)
                    if e.get("e") in (kinds or KINDS):        # the decoders' decision events share the file; they belong to TraceTrackM
                        evs.append(e)
        os.unlink(tp)
    return o, evs


def validate(chk, runs, scratch, label="readstack"):
    """runs: list of (description, events).  One TLC run judges them all; violations name the run and the event."""
    flat, owner = [], []
    for ri, (desc, evs) in enumerate(runs):
        for e in evs:
            flat.append(e)
            owner.append(ri)
    if len(flat) <= len(runs):
        raise common.MachineryError("%s: no hook events were recorded (is the build guarded with BEEBTOOLS_VERIF?)" % label)
    trace = os.path.join(scratch, "%s-trace.ndjson" % label)
    with open(trace, "w") as f:
        for e in flat:
            f.write(json.dumps(e) + "\n")
    ok, tr = common.validate_trace("TraceReadStack", "TraceReadStack.cfg", trace, timeout=3000)
    chk.add_tlc("TraceReadStack(%s)" % label, tr)
    chk.traces += len(runs)
    if not ok or not tr.verdicts:
        raise common.MachineryError("TraceReadStack did not consume the whole trace:\n" + tr.output[-3000:])
    kinds = {}
    for e in flat:
        kinds[e["e"]] = kinds.get(e["e"], 0) + 1
    chk.extra.setdefault("readstack_events", {})[label] = kinds
    ndrift = len(tr.verdicts[-1].get("drift", []))
    chk.extra.setdefault("readstack_layering_drift", {})[label] = ndrift      # events of a kind ReadStack.tla does not expect at that layer
    chk.drift += ndrift
    for ln in sorted(tr.verdicts[-1]["bad"]):
        e = flat[ln - 1]
        desc = runs[owner[ln - 1]][0]
        prev = flat[ln - 2] if ln >= 2 else None
        chk.violation("%s:%s" % (label, e["e"]),
                      "%s: read-stack event %s (after %s) is not a step of ReadStack.tla: wrong layer / sector, a decision that differs from the "
                      "specification's, or a read outside its file or volume" % (desc, json.dumps(e), json.dumps(prev)), dict(run=desc, event=e, previous=prev))
    return len(flat)


def validate_storage(chk, runs, scratch, label="storage-hooks"):
    """runs: list of (description, events incl. a leading ctx).  TraceStorageHook.tla: attach groups against RAttach, select against the
    attached device, reads against the selected devices."""
    flat, owner = [], []
    for ri, (desc, evs) in enumerate(runs):
        for e in evs:
            flat.append(e)
            owner.append(ri)
    if not any(e["e"] == "attach" for e in flat):
        raise common.MachineryError("%s: no attach events were recorded (is the build guarded with BEEBTOOLS_VERIF?)" % label)
    trace = os.path.join(scratch, "%s-trace.ndjson" % label)
    with open(trace, "w") as f:
        for e in flat:
            f.write(json.dumps(e) + "\n")
    ok, tr = common.validate_trace("TraceStorageHook", "TraceStorageHook.cfg", trace, timeout=3000)
    chk.add_tlc("TraceStorageHook(%s)" % label, tr)
    chk.traces += len(runs)
    if not ok or not tr.verdicts:
        raise common.MachineryError("TraceStorageHook did not consume the whole trace:\n" + tr.output[-3000:])
    kinds = {}
    for e in flat:
        kinds[e["e"]] = kinds.get(e["e"], 0) + 1
    chk.extra.setdefault("storage_hook_events", {})[label] = kinds
    for ln in sorted(tr.verdicts[-1]["bad"]):
        e = flat[ln - 1]
        desc = runs[owner[ln - 1]][0]
        chk.violation("%s:%s" % (label, e["e"]),
                      "%s: storage event %s is not a step Storage.tla allows (an attach group that does not meet RAttach, a select that hands out "
                      "another device than the one attached under that number, or a read on a device that was never selected)" % (desc, json.dumps(e)),
                      dict(run=desc, event=e))
    return len(flat)
