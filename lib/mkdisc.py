"""Concretisers: abstract discs (as emitted by the TLA+ specs) -> sector arrays -> container files.
Written from doc/dfs.1, doc/mmb.5 and the DFS catalogue format (DESIGN.md appendix B), not from the code
under test."""
import hashlib, struct, gzip, zlib, io

SECTOR = 256


def stamp(salt, lba):
    """256 pseudo-random bytes identifying (salt, lba); salt identifies surface/image."""
    return hashlib.shake_128(b"%d:%d" % (salt, lba)).digest(SECTOR)


class Stamps:
    """Reverse lookup: which (salt, lba) did these bytes come from?"""
    def __init__(self):
        self.full = {}
        self.salts = {}
        self.secs = {}

    def add(self, salt, nsectors, label=None):
        self.salts[salt] = (nsectors, label)
        self.secs[salt] = [stamp(salt, l) for l in range(nsectors)]
        for l, b in enumerate(self.secs[salt]):
            self.full[b] = (salt, l)

    def origin(self, chunk, expect=None):
        """chunk: up to 256 bytes taken from a sector start. Returns (salt, lba) or None.  A short chunk is
        first compared with the expected sector (short prefixes are not unique)."""
        if len(chunk) == SECTOR:
            return self.full.get(bytes(chunk))
        n = len(chunk)
        if n == 0:
            return ("empty", 0)
        c = bytes(chunk)
        if expect is not None:
            es, el = expect
            if es in self.secs and 0 <= el < len(self.secs[es]) and self.secs[es][el][:n] == c:
                return (es, el)
        for s, arr in self.secs.items():
            for l, b in enumerate(arr):
                if b[:n] == c:
                    return (s, l)
        return None

    def segments(self, data, expect_salt=None, expect_lba=None):
        """Split data into sector-sized chunks and identify each; returns list of (salt,lba,len) or None entries.
        expect_*: where the first chunk is expected to come from (used only to disambiguate short chunks)."""
        out = []
        for p in range(0, len(data), SECTOR):
            c = data[p:p + SECTOR]
            o = self.origin(c, (expect_salt, expect_lba + p // SECTOR) if expect_salt is not None else None)
            out.append((o[0], o[1], len(c)) if o else None)
        return out


def entry(name, d="$", locked=False, load=0, exe=0, length=0, start=0):
    if isinstance(name, str):
        name = name.encode("latin1")
    if isinstance(d, str):
        d = ord(d)
    return dict(name=name, dir=d, locked=bool(locked), load=load, exec=exe, length=length, start=start)


def catalog_fragment(title=b"", cycle=0, opt=0, total=400, entries=(), marker=False, count_byte=None, byte6_extra=0):
    """Two catalogue sectors. title: up to 12 bytes (NUL padded). marker: Watford second-fragment recognition bytes."""
    if isinstance(title, str):
        title = title.encode("latin1")
    s0 = bytearray(SECTOR)
    s1 = bytearray(SECTOR)
    t = title[:12].ljust(12, b"\0")
    s0[0:8] = t[0:8]
    s1[0:4] = t[8:12]
    if marker:
        s0[0:8] = b"\xAA" * 8
    s1[4] = cycle & 255
    s1[5] = (8 * len(entries)) if count_byte is None else count_byte
    s1[6] = ((opt & 3) << 4) | ((total >> 8) & 3) | byte6_extra
    s1[7] = total & 255
    for i, e in enumerate(entries):
        p = 8 + 8 * i
        nb = bytes(e["name"])[:7].ljust(7, b" ")
        s0[p:p + 7] = nb
        s0[p + 7] = (e["dir"] & 0x7F) | (0x80 if e["locked"] else 0)
        s1[p:p + 2] = struct.pack("<H", e["load"] & 0xFFFF)
        s1[p + 2:p + 4] = struct.pack("<H", e["exec"] & 0xFFFF)
        s1[p + 4:p + 6] = struct.pack("<H", e["length"] & 0xFFFF)
        s1[p + 6] = (((e["exec"] >> 16) & 3) << 6) | (((e["length"] >> 16) & 3) << 4) | \
                    (((e["load"] >> 16) & 3) << 2) | ((e["start"] >> 8) & 3)
        s1[p + 7] = e["start"] & 255
    return bytes(s0), bytes(s1)


def blank_surface(nsectors, salt):
    return bytearray(b"".join(stamp(salt, l) for l in range(nsectors)))


def put(img, lba, data):
    img[lba * SECTOR:lba * SECTOR + len(data)] = data


def surface_dfs(nsectors, salt, title=b"", cycle=0, opt=0, total=None, entries=(), **kw):
    img = blank_surface(nsectors, salt)
    s0, s1 = catalog_fragment(title, cycle, opt, nsectors if total is None else total, entries, **kw)
    put(img, 0, s0)
    put(img, 1, s1)
    return img


def surface_wdfs(nsectors, salt, title=b"", cycle=0, opt=0, total=None, entries1=(), entries2=(), **kw):
    img = blank_surface(nsectors, salt)
    tot = nsectors if total is None else total
    s0, s1 = catalog_fragment(title, cycle, opt, tot, entries1, **kw)
    s2, s3 = catalog_fragment(b"", cycle, opt, tot, entries2, marker=True)
    put(img, 0, s0)
    put(img, 1, s1)
    put(img, 2, s2)
    put(img, 3, s3)
    return img


def surface_opus(tracks, salt, volumes, spt=18, zero_track0=True):
    """volumes: list of dict(letter='A'.., start_track=int, title, entries, cycle, opt [, total]) in letter order
    without gaps.  File start sectors in entries are relative to the volume's first sector."""
    nsectors = tracks * spt
    img = blank_surface(nsectors, salt)
    if zero_track0:
        for s in range(0, 18):
            put(img, s, bytes(SECTOR))
    s16 = bytearray(SECTOR)
    s16[0] = 0x20
    s16[1] = nsectors >> 8
    s16[2] = nsectors & 255
    s16[3] = spt
    s16[4] = tracks
    vols = sorted(volumes, key=lambda v: v["start_track"])
    ends = {}
    nxt = nsectors
    for v in reversed(vols):
        ends[v["letter"]] = nxt
        nxt = v["start_track"] * spt
    for v in volumes:
        i = ord(v["letter"]) - 65
        s16[8 + 2 * i] = v["start_track"]
        vlen = ends[v["letter"]] - v["start_track"] * spt
        s0, s1 = catalog_fragment(v.get("title", b""), v.get("cycle", 0), v.get("opt", 0),
                                  v.get("total", vlen), v.get("entries", ()))
        put(img, 2 * i, s0)
        put(img, 2 * i + 1, s1)
    put(img, 16, s16)
    return img


def opus_volume_extent(tracks, volumes, letter, spt=18):
    vols = sorted(volumes, key=lambda v: v["start_track"])
    nxt = tracks * spt
    for v in reversed(vols):
        if v["letter"] == letter:
            return v["start_track"] * spt, nxt
        nxt = v["start_track"] * spt
    raise KeyError(letter)


# ---------------------------------------------------------------- containers (doc/dfs.1, doc/mmb.5)

def container_noninterleaved(sides):
    return b"".join(bytes(s) for s in sides)


def container_interleaved(side0, side1, spt):
    out = bytearray()
    tb = spt * SECTOR
    ntracks = len(side0) // tb
    for t in range(ntracks):
        out += side0[t * tb:(t + 1) * tb]
        out += side1[t * tb:(t + 1) * tb]
    return bytes(out)


MMB_SLOT_BYTES = 204800


def container_mmb(slots, nslots_physical=None, status=None):
    """slots: dict slot -> 800-sector surface bytes.  status: dict slot -> status byte (default 0x0F for
    present slots, 0xF0 otherwise).  The file is as long as the highest present slot requires."""
    status = dict(status or {})
    hdr = bytearray(8192)
    hdr[0:8] = bytes([0, 1, 2, 3, 0, 0, 0, 0])
    for i in range(511):
        p = 16 + 16 * i
        name = (b"SLOT%d" % i)[:12].ljust(12, b"\0")
        hdr[p:p + 12] = name
        st = status.get(i, 0x0F if i in slots else 0xF0)
        hdr[p + 15] = st
    top = (max(slots) + 1) if slots else 0
    if nslots_physical is not None:
        top = nslots_physical
    body = bytearray(top * MMB_SLOT_BYTES)
    for i, s in slots.items():
        body[i * MMB_SLOT_BYTES:i * MMB_SLOT_BYTES + len(s)] = s
    return bytes(hdr) + bytes(body)


def gz(data, level=6, mtime=0):
    bio = io.BytesIO()
    with gzip.GzipFile(fileobj=bio, mode="wb", compresslevel=level, mtime=mtime) as f:
        f.write(data)
    return bio.getvalue()


def write(path, data):
    with open(path, "wb") as f:
        f.write(data)
    return path


# ---------------------------------------------------------------- expected bodies

def body_of(img, e, origin=0):
    """The bytes the catalogue entry designates on surface img (volume origin in sectors)."""
    a = (origin + e["start"]) * SECTOR
    return bytes(img[a:a + e["length"]])


def crc16_xmodem(data, crc=0):
    for b in data:
        crc ^= b << 8
        for _ in range(8):
            crc = ((crc << 1) ^ 0x1021) & 0xFFFF if crc & 0x8000 else (crc << 1) & 0xFFFF
    return crc


def crc16_ccitt(data, crc=0xFFFF):
    return crc16_xmodem(data, crc)
