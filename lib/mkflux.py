"""Flux concretisers: sectors -> FM / MFM cell streams (IBM 3740 / System 34 track layout) with recorded item
boundaries for fault injection -> bit-streams for the decoders (h_track), HFE v1 / v3 files and HxC MFM files.
Written from the format descriptions (DESIGN.md appendix B), independent of img_hfe.cc / img_hxcmfm.cc."""
import struct


def crc16(data, crc=0xFFFF):
    for b in data:
        crc ^= b << 8
        for _ in range(8):
            crc = ((crc << 1) ^ 0x1021) & 0xFFFF if crc & 0x8000 else (crc << 1) & 0xFFFF
    return crc


def rev8(b):
    return int("{:08b}".format(b)[::-1], 2)


class Track:
    """cells: list of 0/1; items: list of dict(kind, rec, sync, mark, body, end) with cell indices."""
    def __init__(self, enc):
        self.enc = enc
        self.cells = []
        self.items = []
        self._prev = 0

    # --- FM: every data bit preceded by a clock bit
    def fm(self, d, clock=0xFF):
        for i in range(7, -1, -1):
            self.cells.append((clock >> i) & 1)
            self.cells.append((d >> i) & 1)

    # --- MFM: clock = not (previous data or this data)
    def mfm(self, d):
        for i in range(7, -1, -1):
            b = (d >> i) & 1
            self.cells.append(0 if (self._prev or b) else 1)
            self.cells.append(b)
            self._prev = b

    def a1(self):
        for i in range(15, -1, -1):
            self.cells.append((0x4489 >> i) & 1)
        self._prev = 1

    def byte(self, d):
        (self.fm if self.enc == "FM" else self.mfm)(d)

    def gap(self, n, fill=None):
        f = fill if fill is not None else (0xFF if self.enc == "FM" else 0x4E)
        for _ in range(n):
            self.byte(f)

    def field(self, kind, rec, mark, payload, sync=None, crc_ok=True):
        """sync zeros, (A1 A1 A1), mark, payload, crc"""
        nsync = sync if sync is not None else (6 if self.enc == "FM" else 12)
        it = dict(kind=kind, rec=rec, sync=len(self.cells))
        for _ in range(nsync):
            self.byte(0)
        it["mark"] = len(self.cells)
        body = bytes([mark]) + bytes(payload)
        if self.enc == "FM":
            self.fm(mark, 0xC7)
            c = crc16(body)
        else:
            self.a1(); self.a1(); self.a1()
            self.mfm(mark)
            c = crc16(body, crc16(b"\xA1\xA1\xA1"))
        it["body"] = len(self.cells)
        if not crc_ok:
            c ^= 0x0101
        for b in payload:
            self.byte(b)
        self.byte(c >> 8)
        self.byte(c & 255)
        it["end"] = len(self.cells)
        self.items.append(it)
        return it


def build_track(enc, cyl, head, sectors, order=None, gap1=None, gap2=None, gap3=None, gap4=None, sync=None, deleted=(), size_code=1, prologue=()):
    """sectors: dict rec -> bytes (256).  order: physical order of record numbers.
    prologue: recoverable anomalies recorded before the sectors proper, as (kind, rec): 'orphan' = a good sector ID with no data
    record after it (a long gap instead), 'badcrc' = ID + data record whose CRC is wrong, 'deleted' = ID + deleted-data record."""
    t = Track(enc)
    fm = enc == "FM"
    t.gap(gap1 if gap1 is not None else (16 if fm else 40))
    for kind, rec in prologue:
        t.field("id", rec, 0xFE, bytes([cyl, head, rec, size_code]), sync=sync)
        if kind == "orphan":
            t.gap(100 if fm else 140)
            continue
        t.gap(gap2 if gap2 is not None else (11 if fm else 22))
        t.field("data", rec, 0xF8 if kind == "deleted" else 0xFB, bytes(b ^ 0x5A for b in sectors[rec]), sync=sync, crc_ok=(kind != "badcrc"))
        t.gap(gap3 if gap3 is not None else (10 if fm else 24))
    for rec in (order or sorted(sectors)):
        t.field("id", rec, 0xFE, bytes([cyl, head, rec, size_code]), sync=sync)
        t.gap(gap2 if gap2 is not None else (11 if fm else 22))
        t.field("data", rec, 0xF8 if rec in deleted else 0xFB, sectors[rec], sync=sync)
        t.gap(gap3 if gap3 is not None else (10 if fm else 24))
    t.gap(gap4 if gap4 is not None else (40 if fm else 80))
    return t


# ------------------------------------------------------------------ fault injection at bit level

def damage(t, item, fault, rnd):
    """fault: 'crc' (flip a bit inside payload/CRC), 'nomark' (destroy the mark / sync so it cannot be recognised)"""
    it = t.items[item]
    if fault == "crc":
        # flip one *data* cell inside the body (odd offset from body start: data cells), keeping clocks plausible is not required
        nbits = (it["end"] - it["body"]) // 2
        k = rnd.randrange(nbits)
        pos = it["body"] + 2 * k + 1
        t.cells[pos] ^= 1
        if t.enc == "MFM":
            # keep MFM clocking legal around the flipped bit so that the CRC (not a clock violation) is what fails
            fix_mfm_clocks(t, it["body"], it["end"])
    elif fault == "nomark":
        if t.enc == "FM":
            for p in range(it["mark"], it["mark"] + 16):
                t.cells[p] = 1 if (p - it["mark"]) % 2 == 0 else 0     # clock FF data 00: an ordinary zero byte
        else:
            for p in range(it["mark"], it["mark"] + 48):
                t.cells[p] = 0
    elif fault == "zero":
        for p in range(it["sync"], it["end"]):
            t.cells[p] = 0
    else:
        raise ValueError(fault)


def fix_mfm_clocks(t, start, end):
    prev = t.cells[start - 1] if start > 0 else 0
    for p in range(start, end, 2):
        d = t.cells[p + 1]
        t.cells[p] = 0 if (prev or d) else 1
        prev = d


def cells_to_bytes_lsb(cells):
    out = bytearray((len(cells) + 7) // 8)
    for i, c in enumerate(cells):
        if c:
            out[i >> 3] |= 1 << (i & 7)
    return bytes(out)


def cells_to_bytes_msb(cells):
    out = bytearray((len(cells) + 7) // 8)
    for i, c in enumerate(cells):
        if c:
            out[i >> 3] |= 0x80 >> (i & 7)
    return bytes(out)


# ------------------------------------------------------------------ HFE

def hfe_side_stream(t):
    """HFE byte stream of one side of one track.  FM cells occupy two bit positions (filler, cell)."""
    if t.enc == "FM":
        bits = []
        for c in t.cells:
            bits += [0, c]
    else:
        bits = list(t.cells)
    while len(bits) % 8:
        bits.append(0)
    return cells_to_bytes_lsb(bits)


def v3_insert(stream, ops):
    """ops: list of (byte position in the plain stream, opcode name, argument).  Returns the v3 stream.
    Opcodes are given in 'logical' form (0xF0..) and stored bit-reversed like all HFE bytes."""
    by_pos = {}
    for pos, name, arg in ops:
        by_pos.setdefault(pos, []).append((name, arg))
    out = bytearray()
    for i, b in enumerate(stream):
        for name, arg in by_pos.get(i, []):
            if name == "nop":
                out.append(rev8(0xF0))
            elif name == "setindex":
                out.append(rev8(0xF1))
            elif name == "setbitrate":
                out += bytes([rev8(0xF2), rev8(arg)])
            elif name == "skipbits":
                out += bytes([rev8(0xF3), rev8(arg)])
        out.append(b)
    return bytes(out)


def write_hfe(path, sides, ntracks, enc, version=1, pad_to=256, exact_len=False):
    """sides: list (1 or 2) of lists of per-track byte streams."""
    nsides = len(sides)
    hdr = bytearray(b"\xff" * 512)
    hdr[0:8] = b"HXCPICFE" if version == 1 else b"HXCHFEV3"
    hdr[8] = 0
    hdr[9] = ntracks
    hdr[10] = nsides
    hdr[11] = 2 if enc == "FM" else 0
    hdr[12:14] = struct.pack("<H", 250)
    hdr[14:16] = struct.pack("<H", 0)
    hdr[16] = 7
    hdr[17] = 1
    hdr[18:20] = struct.pack("<H", 1)
    lut = bytearray(b"\xff" * 512)
    body = bytearray()
    blk = 2
    for t in range(ntracks):
        s0 = sides[0][t]
        s1 = sides[1][t] if nsides > 1 else b""
        n = max(len(s0), len(s1))
        raw_n = n
        n = (n + pad_to - 1) // pad_to * pad_to
        n = (n + 255) // 256 * 256
        s0 = s0.ljust(n, b"\0")
        s1 = s1.ljust(n, b"\0")
        data = bytearray()
        for p in range(0, n, 256):
            data += s0[p:p + 256] + s1[p:p + 256]
        # real HFE files record the unpadded length (both sides); the data itself is stored in whole 512-byte blocks
        lut[4 * t:4 * t + 4] = struct.pack("<HH", blk, 2 * raw_n if exact_len else len(data))
        body += data
        blk += (len(data) + 511) // 512
        if len(body) % 512:
            body += bytes(512 - len(body) % 512)
    with open(path, "wb") as f:
        f.write(bytes(hdr) + bytes(lut) + bytes(body))
    return path


def write_hxcmfm(path, sides, ntracks):
    """sides: list of lists of per-track MSB-first MFM byte streams."""
    nsides = len(sides)
    hdr = bytearray(19)
    hdr[0:7] = b"HXCMFM\0"
    hdr[7:9] = struct.pack("<H", ntracks)
    hdr[9] = nsides
    hdr[10:12] = struct.pack("<H", 300)
    hdr[12:14] = struct.pack("<H", 250)
    hdr[14] = 4
    hdr[15:19] = struct.pack("<I", 19)
    recs = bytearray()
    body = bytearray()
    base = 19 + 11 * ntracks * nsides
    base = (base + 511) // 512 * 512
    for t in range(ntracks):
        for s in range(nsides):
            d = sides[s][t]
            recs += struct.pack("<HBII", t, s, len(d), base + len(body))
            body += d
            if len(body) % 512:
                body += bytes(512 - len(body) % 512)
    out = bytes(hdr) + bytes(recs)
    out = out.ljust(base, b"\0") + bytes(body)
    with open(path, "wb") as f:
        f.write(out)
    return path


def image_to_flux(img, ntracks, spt, enc, fmt, path, nsides=1, order=None, gaps=None, ops=None, side1_head=1, version=1, skew=0, exact_len=False,
                  prologue=None):
    """img: bytes of a non-interleaved sector dump (side 0 then side 1).  fmt: 'hfe' | 'mfm'."""
    gaps = gaps or {}
    sides = []
    for s in range(nsides):
        tr = []
        for t in range(ntracks):
            base = (s * ntracks + t) * spt
            secs = {r: bytes(img[(base + r) * 256:(base + r + 1) * 256]) for r in range(spt)}
            o = list(order) if order else list(range(spt))
            if skew:
                k = (t * skew) % spt
                o = o[k:] + o[:k]
            tk = build_track(enc, t, s if (s == 0 or side1_head) else 0, secs, order=o,
                             prologue=(prologue(t, s) if callable(prologue) else (prologue or ())), **gaps)
            if fmt == "hfe":
                st = hfe_side_stream(tk)
                if version == 3 and ops:
                    st = v3_insert(st, ops(t, s, len(st)) if callable(ops) else ops)
                tr.append(st)
            else:
                tr.append(cells_to_bytes_msb(tk.cells))
        sides.append(tr)
    if fmt == "hfe":
        return write_hfe(path, sides, ntracks, enc, version=version, exact_len=exact_len)
    return write_hxcmfm(path, sides, ntracks)
