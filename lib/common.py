"""Shared infrastructure for the /verif checks: paths, builds from /repo's working tree,
TLC driver, evidence writer, known-findings handling, sandboxed runners."""
import os, sys, json, hashlib, subprocess, time, shutil, re, fcntl, tempfile, random, resource, signal

VERIF = os.path.dirname(os.path.dirname(os.path.abspath(__file__)))
REPO = os.environ.get("VERIF_REPO", "/repo")
CACHE = os.environ.get("VERIF_CACHE", "/var/tmp/beebtools-verif")
SPEC = os.path.join(VERIF, "spec")
NCPU = min(16, os.cpu_count() or 4)
GUARD = "BEEBTOOLS_VERIF"


def log(*a):
    print(*a, file=sys.stderr, flush=True)


class MachineryError(Exception):
    """Something in the verification machinery itself failed (exit 2)."""


# ------------------------------------------------------------------ builds

def repo_tree_hash():
    """Hash of every tracked/untracked (non-ignored) file of /repo's working tree."""
    out = subprocess.run(["git", "-C", REPO, "ls-files", "-z", "-co", "--exclude-standard"],
                         stdout=subprocess.PIPE, check=True).stdout
    h = hashlib.sha256()
    for p in sorted(x for x in out.split(b"\0") if x):
        full = os.path.join(REPO.encode(), p)
        if p.startswith(b"dfs/testdata/") or p.startswith(b"basic/testdata/"):
            # test data does not influence the binaries; skip for speed but keep names
            h.update(p)
            continue
        try:
            with open(full, "rb") as f:
                h.update(p + b"\0" + hashlib.sha256(f.read()).digest())
        except (FileNotFoundError, IsADirectoryError):
            h.update(p + b"\0missing")
    # the harness sources take part too
    hd = os.path.join(VERIF, "harness")
    for fn in sorted(os.listdir(hd)):
        with open(os.path.join(hd, fn), "rb") as f:
            h.update(fn.encode() + b"\0" + hashlib.sha256(f.read()).digest())
    return h.hexdigest()[:16]


FLAVORS = {
    # sanitizer build with hooks on; NDEBUG like the pinned build so that what runs is what ships
    "san": dict(defs="-DBEEBTOOLS_VERIF -D_GLIBCXX_ASSERTIONS -DNDEBUG",
                flags="-O1 -g -fno-omit-frame-pointer -fsanitize=address,undefined -fno-sanitize-recover=undefined",
                harness=True),
    # the pinned configuration (RelWithDebInfo => -O2 -g -DNDEBUG), hooks on (they are inert without the env var)
    "ndebug": dict(defs="-DBEEBTOOLS_VERIF -DNDEBUG", flags="-O2 -g", harness=True),
    # the pinned configuration with the guard OFF
    "plain": dict(defs="-DNDEBUG", flags="-O2 -g", harness=False),
    # documented default cmake build: assertions enabled
    "assert": dict(defs="-DBEEBTOOLS_VERIF", flags="-O1 -g", harness=False),
}


def build(flavor="san"):
    """Build /repo's current working tree (and the harnesses) in the given flavor; returns the build dir.
    Cached by tree hash; other hashes are pruned."""
    hsh = repo_tree_hash()
    root = os.path.join(CACHE, "build")
    os.makedirs(root, exist_ok=True)
    bdir = os.path.join(root, hsh, flavor)
    lock = open(os.path.join(root, ".lock"), "w")
    fcntl.flock(lock, fcntl.LOCK_EX)
    try:
        if os.path.exists(os.path.join(bdir, ".ok")):
            os.utime(os.path.join(root, hsh))
            return bdir
        # prune stale hashes: keep the eight most recently used, and never remove one used within the last three hours
        # (another check may be running from it)
        others = sorted((d for d in os.listdir(root) if d != hsh and not d.startswith(".")),
                        key=lambda d: os.path.getmtime(os.path.join(root, d)), reverse=True)
        for d in others[8:]:
            if time.time() - os.path.getmtime(os.path.join(root, d)) > 3 * 3600:
                shutil.rmtree(os.path.join(root, d), ignore_errors=True)
        shutil.rmtree(bdir, ignore_errors=True)
        os.makedirs(bdir)
        fl = FLAVORS[flavor]
        cflags = fl["flags"] + " " + fl["defs"] + " -Wno-error"
        t0 = time.time()
        cmd = ["cmake", "-G", "Ninja", "-S", os.path.join(VERIF, "harness"), "-B", bdir,
               "-DCMAKE_BUILD_TYPE=", "-DCMAKE_C_FLAGS=" + cflags, "-DCMAKE_CXX_FLAGS=" + cflags,
               "-DVERIF_REPO=" + REPO, "-DVERIF_HARNESS=" + ("ON" if fl["harness"] else "OFF")]
        r = subprocess.run(cmd, stdout=subprocess.PIPE, stderr=subprocess.STDOUT, text=True)
        if r.returncode != 0:
            raise MachineryError("cmake configure failed (%s):\n%s" % (flavor, r.stdout[-4000:]))
        targets = ["dfs", "bbcbasic_to_text"] + (["harnesses"] if fl["harness"] else [])
        r = subprocess.run(["cmake", "--build", bdir, "-j", str(NCPU), "--target"] + targets,
                           stdout=subprocess.PIPE, stderr=subprocess.STDOUT, text=True)
        if r.returncode != 0:
            raise MachineryError("build failed (%s):\n%s" % (flavor, r.stdout[-6000:]))
        open(os.path.join(bdir, ".ok"), "w").write("%.1f" % (time.time() - t0))
        log("[build] %s built in %.1fs -> %s" % (flavor, time.time() - t0, bdir))
        return bdir
    finally:
        fcntl.flock(lock, fcntl.LOCK_UN)
        lock.close()


def exe(bdir, name):
    for cand in (os.path.join(bdir, "repo", "dfs", name), os.path.join(bdir, "repo", "basic", name),
                 os.path.join(bdir, name)):
        if os.path.exists(cand):
            return cand
    raise MachineryError("no executable %s under %s" % (name, bdir))


# ------------------------------------------------------------------ scratch space

class Scratch:
    """Per-run scratch directory under /var/tmp (never /tmp), removed on exit."""
    def __init__(self, tag):
        base = os.path.join(CACHE, "scratch")
        os.makedirs(base, exist_ok=True)
        self.path = tempfile.mkdtemp(prefix=tag + "-", dir=base)

    def __enter__(self):
        return self.path

    def __exit__(self, *a):
        shutil.rmtree(self.path, ignore_errors=True)


# ------------------------------------------------------------------ TLC

class TlcResult:
    def __init__(self):
        self.states = 0
        self.distinct = 0
        self.cases = []
        self.verdicts = []
        self.violated = None      # name of violated invariant/property
        self.error = None
        self.output = ""
        self.coverage = {}        # action -> (taken/distinct, generated)
        self.wall = 0.0
        self.rc = 0
        self.cex = []


_CASE_RE = re.compile(r'^<<"(CASE|VERDICT)", "(.*)">>$')


def _unescape_tla(s):
    # TLC prints strings with \" and \\ escapes
    out = []
    i = 0
    while i < len(s):
        c = s[i]
        if c == "\\" and i + 1 < len(s):
            n = s[i + 1]
            out.append({"n": "\n", "t": "\t", "r": "\r", "f": "\f"}.get(n, n))
            i += 2
        else:
            out.append(c)
            i += 1
    return "".join(out)


def tlc(module, cfg, workers=None, simulate=None, depth=None, seed=None, env=None, timeout=1500,
        coverage=False, extra=(), want_cases=True, xmx="8g", deque=False, case_cb=None):
    """Run TLC on spec/<module>.tla with spec/<cfg>. Returns TlcResult. Raises MachineryError on
    parse/semantic errors. An invariant violation is *reported* in result.violated, not raised."""
    meta = tempfile.mkdtemp(prefix="tlc-", dir=_mk(os.path.join(CACHE, "tlc")))
    cmd = ["java", "-XX:+UseParallelGC", "-Xmx" + xmx, "-Xss256m"]
    if deque:
        cmd.append("-Dtlc2.tool.queue.IStateQueue=StateDeque")
    cmd += ["-cp", "/opt/veriftools/tla/tla2tools.jar:/opt/veriftools/tla/CommunityModules-deps.jar",
            "tlc2.TLC", "-metadir", meta, "-config", os.path.join(SPEC, cfg), "-noGenerateSpecTE"]
    cmd += ["-workers", str(workers or NCPU)]
    if simulate:
        cmd += ["-simulate", "num=%d" % simulate]
        if depth:
            cmd += ["-depth", str(depth)]
    if seed is not None:
        cmd += ["-seed", str(seed)]
    if coverage:
        cmd += ["-coverage", "1"]
    cmd += list(extra)
    cmd.append(os.path.join(SPEC, module + ".tla"))
    e = dict(os.environ)
    e.pop("JAVA_TOOL_OPTIONS", None)
    if env:
        e.update(env)
    res = TlcResult()
    t0 = time.time()
    try:
        p = subprocess.Popen(cmd, stdout=subprocess.PIPE, stderr=subprocess.STDOUT, text=True, env=e, cwd=SPEC,
                             errors="replace")
        lines = []
        deadline = t0 + timeout
        pending = None
        for line in p.stdout:
            line = line.rstrip("\n")
            # TLC wraps long tuples over several lines:  << "CASE",\n   "...." >>
            if pending is not None:
                pending += " " + line.strip()
                if not line.rstrip().endswith(">>"):
                    continue
                line = re.sub(r'^<< "(\w+)", +"(.*)" >>$', r'<<"\1", "\2">>', pending)
                pending = None
            elif re.match(r'^<< "(CASE|VERDICT)",$', line):
                pending = line
                continue
            m = _CASE_RE.match(line)
            if m:
                try:
                    c = json.loads(_unescape_tla(m.group(2)))
                except Exception as ex:
                    raise MachineryError("cannot parse CASE line: %r (%s)" % (line[:200], ex))
                if m.group(1) == "VERDICT":
                    res.verdicts.append(c)
                elif case_cb:
                    case_cb(c)
                else:
                    res.cases.append(c)
            else:
                lines.append(line)
            if time.time() > deadline:
                p.kill()
                raise MachineryError("TLC timeout after %ds on %s/%s" % (timeout, module, cfg))
        p.wait()
        res.rc = p.returncode
    finally:
        shutil.rmtree(meta, ignore_errors=True)
    res.wall = time.time() - t0
    out = "\n".join(lines)
    res.output = out
    m = re.search(r"(\d+) states generated, (\d+) distinct states found", out)
    if m:
        res.states, res.distinct = int(m.group(1)), int(m.group(2))
    m = re.search(r"Invariant (\S+) is violated", out)
    if m:
        res.violated = m.group(1)
    m = re.search(r"Action property (\S+) is violated|Temporal properties were violated", out)
    if m and not res.violated:
        res.violated = m.group(1) or "temporal"
    if "Assumption" in out and "is false" in out:
        res.violated = res.violated or "ASSUME"
    if res.violated:
        res.cex = [l for l in lines if l.startswith("/\\") or l.startswith("State ") or re.match(r"^\w+ = ", l)][:400]
    if coverage:
        for mm in re.finditer(r"^<(\w+) line \d+, col \d+ to line \d+, col \d+ of module (\w+)>: (\d+):(\d+)", out, re.M):
            res.coverage[mm.group(1)] = (int(mm.group(3)), int(mm.group(4)))
    if res.rc != 0 and not res.violated:
        # 12/13 = violations; others are errors
        res.error = out[-3000:]
        errs = [i for i, ln in enumerate(lines) if ln.startswith("Error:") or "xception" in ln]
        detail = "\n".join(lines[errs[0]:errs[0] + 25]) if errs else ""
        raise MachineryError("TLC failed rc=%d on %s/%s:\n%s\n...\n%s" % (res.rc, module, cfg, detail, out[-1500:]))
    if simulate and not m and res.states == 0:
        mm = re.search(r"(\d+) states checked", out)
        if mm:
            res.states = res.distinct = int(mm.group(1))
    return res


def _mk(d):
    os.makedirs(d, exist_ok=True)
    return d


def no_nulls(x):
    """TLC's JSON reader has no null: replace None recursively."""
    if x is None:
        return "none"
    if isinstance(x, dict):
        return {k: no_nulls(v) for k, v in x.items()}
    if isinstance(x, (list, tuple)):
        return [no_nulls(v) for v in x]
    return x


def validate_trace(module, cfg, trace_path, timeout=600, extra_env=None):
    """Run a Trace*.tla spec over an ndjson trace. Acceptance is signalled by the trace spec's
    POSTCONDITION; returns (accepted, TlcResult)."""
    env = {"TRACE": trace_path}
    if extra_env:
        env.update(extra_env)
    try:
        r = tlc(module, cfg, workers=1, env=env, timeout=timeout, want_cases=False)
    except MachineryError as ex:
        msg = str(ex)
        if "Postcondition" in msg or "postcondition" in msg or "POSTCONDITION" in msg:
            r = TlcResult()
            r.output = msg
            m = re.search(r"(\d+) states generated, (\d+) distinct states found", msg)
            if m:
                r.states, r.distinct = int(m.group(1)), int(m.group(2))
            return False, r
        raise
    if r.violated:
        return False, r
    return True, r


# ------------------------------------------------------------------ running the implementation

class Outcome:
    __slots__ = ("rc", "out", "err", "timed_out", "signal", "san", "wall")

    def ok_alphabet(self, allowed=(0, 1, 2)):
        return (not self.timed_out) and self.signal is None and not self.san and self.rc in allowed

    def brief(self):
        return dict(rc=self.rc, timed_out=self.timed_out, signal=self.signal, san=self.san,
                    out=self.out[:200].decode("latin1"), err=self.err[:300].decode("latin1"))


SAN_ENV = {
    "ASAN_OPTIONS": "detect_leaks=0:abort_on_error=0:exitcode=99:allocator_may_return_null=1:max_allocation_size_mb=1024",
    "UBSAN_OPTIONS": "print_stacktrace=1:halt_on_error=1:exitcode=98",
}
_SAN_RE = re.compile(rb"(AddressSanitizer|runtime error:|UndefinedBehaviorSanitizer|LeakSanitizer|Assertion .* failed|terminate called)")


try:
    import ctypes
    _PRCTL = ctypes.CDLL(None, use_errno=True).prctl
except Exception:                                    # no prctl: children are only ended by their own timeouts
    _PRCTL = None


def run(argv, stdin=None, cwd=None, env=None, timeout=20, as_limit=None, fsize=None, stdout=None, _retry=True):
    """Run one process; classify the outcome.  A run that does not finish within `timeout` is repeated once with four times the
    limit and that second outcome is returned: on a loaded machine (16 checks' worth of sanitizer builds) a slow run is not a hang,
    and only a failure to terminate that repeats is reported as one."""
    e = dict(os.environ)
    e.update(SAN_ENV)
    e.pop("COLUMNS", None)
    e.pop("BEEBTOOLS_VERIF_TRACE", None)
    if env:
        e.update(env)

    def pre():
        # the child is killed when the checker that started it dies (an outer timeout, a kill): a program that loops for ever must
        # not outlive its run and load the machine for every later one
        if _PRCTL is not None:
            _PRCTL(1, int(signal.SIGKILL))          # PR_SET_PDEATHSIG
        if fsize is not None:
            signal.signal(signal.SIGXFSZ, signal.SIG_IGN)
            resource.setrlimit(resource.RLIMIT_FSIZE, (fsize, fsize))
        resource.setrlimit(resource.RLIMIT_CORE, (0, 0))
        if as_limit:
            resource.setrlimit(resource.RLIMIT_AS, (as_limit, as_limit))
    o = Outcome()
    t0 = time.time()
    # what the program writes is kept in unlinked temporary files, not in memory, and is limited (RLIMIT_FSIZE, 192 MiB unless the
    # caller sets its own): a program that does not stop writing is then ended by SIGXFSZ and reported as such, instead of
    # taking the checker down with it
    import tempfile
    cap_out = tempfile.TemporaryFile() if stdout is None else None
    cap_err = tempfile.TemporaryFile()
    LIMIT = 192 * 1024 * 1024

    def pre2():
        pre()
        if fsize is None:
            resource.setrlimit(resource.RLIMIT_FSIZE, (LIMIT, LIMIT))

    def back(f):
        if f is None:
            return b""
        f.seek(0)
        return f.read(LIMIT + 1)
    try:
        p = subprocess.run(argv, input=stdin if isinstance(stdin, (bytes, type(None))) else None,
                           stdin=None if isinstance(stdin, (bytes, type(None))) else stdin,
                           stdout=stdout if stdout is not None else cap_out, stderr=cap_err,
                           cwd=cwd, env=e, timeout=timeout, preexec_fn=pre2)
        o.rc, o.out, o.err, o.timed_out = p.returncode, back(cap_out), back(cap_err), False
    except subprocess.TimeoutExpired as ex:
        o.rc, o.out, o.err, o.timed_out = None, back(cap_out), back(cap_err), True
    finally:
        for f in (cap_out, cap_err):
            if f is not None:
                f.close()
    if o.timed_out and _retry and stdout is None and not hasattr(stdin, "read"):
        return run(argv, stdin=stdin, cwd=cwd, env=env, timeout=4 * timeout, as_limit=as_limit, fsize=fsize, stdout=stdout, _retry=False)
    o.wall = time.time() - t0
    o.signal = -o.rc if (o.rc is not None and o.rc < 0) else None
    o.san = bool(_SAN_RE.search(o.err)) or o.rc in (98, 99)
    return o


def pmap(fn, items, workers=None):
    """Thread-pool map (the work is in subprocesses)."""
    from concurrent.futures import ThreadPoolExecutor
    with ThreadPoolExecutor(max_workers=workers or NCPU) as ex:
        return list(ex.map(fn, items))


# ------------------------------------------------------------------ verdicts, findings, evidence

def load_findings():
    p = os.path.join(VERIF, "known_findings.json")
    if not os.path.exists(p):
        return {"findings": [], "fixed": []}
    return json.load(open(p))


class Check:
    """Collects what a check run covered and decides its exit status."""

    def __init__(self, pid, level, tier, seed):
        self.pid, self.level, self.tier, self.seed = pid, level, tier, seed
        self.t0 = time.time()
        self.states = 0
        self.transitions = 0
        self.evaluations = 0
        self.traces = 0
        self.distinct = set()
        self.samples = []
        self.extra = {}
        self.violations = []        # (signature, description, replay dict)
        self.known_hit = {}
        self.drift = 0
        self.rule = ""
        self.assumptions = []
        self.exhaustive = False
        self.tlc_runs = []
        kf = load_findings()
        self.known = [f for f in kf.get("findings", []) if f["property"] == pid]

    # -- coverage bookkeeping
    def phase(self, name):
        now = time.time()
        self.extra.setdefault("phases_s", {})[name] = round(now - getattr(self, "_pt", self.t0), 1)
        self._pt = now

    def add_tlc(self, name, r):
        self.states += r.distinct
        self.transitions += r.states
        self.tlc_runs.append(dict(spec=name, generated=r.states, distinct=r.distinct, wall_s=round(r.wall, 1),
                                  violated=r.violated, cases=len(r.cases)))

    def case(self, key=None, nontrivial=True, n=1):
        self.evaluations += n
        if nontrivial and key is not None:
            self.distinct.add(hashlib.md5(repr(key).encode()).digest()[:8])

    def sample(self, s, cap=6):
        if len(self.samples) < cap:
            self.samples.append(s)

    # -- verdicts
    def violation(self, signature, description, replay):
        """signature: short stable string classifying the failure; matched against known findings
        by regular expression."""
        for f in self.known:
            if re.search(f["signature"], signature):
                self.known_hit.setdefault(f["id"], dict(f=f, n=0, example=description))["n"] += 1
                return False
        if sum(1 for v in self.violations if v[0] == signature and v[2] is not None) < 3:
            self.violations.append((signature, description, replay))
        else:
            self.violations.append((signature, None, None))
        return True

    def finish(self):
        wall = time.time() - self.t0
        # development runs against a scratch worktree (tools/try_wt.sh) keep their evidence away from the committed one
        OUT = os.environ.get("VERIF_EVIDENCE_DIR") or VERIF
        os.makedirs(os.path.join(OUT, "evidence"), exist_ok=True)
        os.makedirs(os.path.join(OUT, "replays"), exist_ok=True)
        cov = dict(evaluations=self.evaluations, distinct_nontrivial=len(self.distinct), rule=self.rule,
                   samples=self.samples or ["(none)"], states=self.states, transitions=self.transitions,
                   traces_validated_against_impl=self.traces, exhaustive=self.exhaustive,
                   tlc_runs=self.tlc_runs, model_drift=self.drift,
                   known_findings_hit={k: v["n"] for k, v in self.known_hit.items()})
        cov.update(self.extra)
        ev = dict(property_id=self.pid, tier=self.tier, seed=self.seed, level=self.level, coverage=cov,
                  assumptions=self.assumptions, wall_s=round(wall, 1), violations=len(self.violations))
        with open(os.path.join(OUT, "evidence", self.pid + ".json"), "w") as f:
            json.dump(ev, f, indent=1, default=str)
            f.write("\n")
        for k, v in sorted(self.known_hit.items()):
            print("KNOWN-FINDING: property=%s %s [%s] (%d cases; e.g. %s)" %
                  (self.pid, v["f"]["what"], k, v["n"], str(v["example"])[:160]))
        if self.violations:
            seen = set()
            for i, (sig, desc, rep) in enumerate(self.violations):
                if sig in seen or rep is None:
                    continue
                seen.add(sig)
                path = os.path.join(OUT, "replays", "%s-%s.json" % (self.pid, re.sub(r"[^A-Za-z0-9_.-]+", "_", sig)[:80]))
                with open(path, "w") as f:
                    json.dump(dict(property=self.pid, signature=sig, description=desc, replay=rep), f, indent=1, default=str)
                print("VIOLATION property=%s replay=%s" % (self.pid, path))
                print("  signature: %s\n  %s" % (sig, str(desc)[:600]))
            print("%s: %d violating case(s), %d distinct signature(s)" % (self.pid, len(self.violations), len(seen)))
            return 1
        print("%s: held on everything explored (%d evaluations, %d distinct non-trivial, %d TLC states, %d traces) in %.0fs"
              % (self.pid, self.evaluations, len(self.distinct), self.states, self.traces, wall))
        return 0
