"""Turning abstract catalogues (as emitted by spec/Catalog.tla, spec/Disc.tla) into image files of each
file-system variant, and projections of dfs output back to abstract observations."""
import os, re
import mkdisc


def to_entry(e, topbits=0):
    """TLC entry record -> mkdisc entry. topbits: bitmask of name byte positions that get bit 7 set on disc."""
    name = bytes((c | (0x80 if (topbits >> i) & 1 else 0)) for i, c in enumerate(e["name"]))
    return mkdisc.entry(name, e["dir"], e["lock"], e["load"], e["exec"], e["len"], e["start"])


def raw_meta(e):
    """the 8 metadata bytes as mkdisc wrote them (independent of the TLA+ REnc)"""
    s0, s1 = mkdisc.catalog_fragment(entries=[e])
    return list(s1[8:16])


def nm(e):
    return [e["dir"] & 0x7F, 1 if e["locked"] else 0, [c & 0x7F for c in e["name"]]]


class Disc:
    """A concrete image file plus what the checks need to know about it."""
    def __init__(self, **kw):
        self.__dict__.update(kw)


def build(variant, entries, scratch, tag, title=b"", cycle=0, opt=0, total=None, nsectors=None, split=None,
          salt=1, ext=None, opus_letter="B", body_writer=None):
    """variant: DFS | WDFS | OPUS.  entries: mkdisc entries in catalogue order.
    DFS:  one fragment.  WDFS: entries[:split] in the first catalogue, entries[split:] in the second.
    OPUS: an 80-track DD disc with volumes A (small, one file) and <opus_letter> holding `entries`
          (start sectors relative to the volume)."""
    if variant == "DFS":
        n = nsectors or 800
        img = mkdisc.surface_dfs(n, salt, title, cycle, opt, total if total is not None else n, entries)
        ext = ext or ("ssd" if n in (400, 800) else "sdd")
        mfm = ext in ("sdd", "ddd")
        d = Disc(origin=0, vol_len=n, drive="0", colon=":0.", cat_secs=2)
    elif variant == "WDFS":
        n = nsectors or 800
        k = len(entries) // 2 if split is None else split
        img = mkdisc.surface_wdfs(n, salt, title, cycle, opt, total if total is not None else n, entries[:k], entries[k:])
        ext = ext or ("ssd" if n in (400, 800) else "sdd")
        mfm = ext in ("sdd", "ddd")
        d = Disc(origin=0, vol_len=n, drive="0", colon=":0.", cat_secs=4)
    elif variant == "OPUS":
        tracks = 80
        vols = []
        idx = ord(opus_letter) - 65
        vt = 50                                   # the tested volume is 50 tracks = 900 sectors
        def filler(L, t):
            return dict(letter=L, start_track=t, title=b"FILL" + L.encode(), entries=[mkdisc.entry("X" + L, length=10, start=0)])
        if opus_letter != "H":
            t = 1
            for i in range(idx):
                vols.append(filler("ABCDEFGH"[i], t))
                t += 1
            vols.append(dict(letter=opus_letter, start_track=t, title=title, cycle=cycle, opt=opt, entries=entries))
            vols.append(filler("ABCDEFGH"[idx + 1], t + vt))
        else:
            vols.append(filler("A", 1))
            t = 80 - vt - 6
            for i in range(1, 7):
                vols.append(filler("ABCDEFGH"[i], t))
                t += 1
            vols.append(dict(letter="H", start_track=t, title=title, cycle=cycle, opt=opt, entries=entries))
        img = mkdisc.surface_opus(tracks, salt, vols)
        o, end = mkdisc.opus_volume_extent(tracks, vols, opus_letter)
        ext = "sdd"
        mfm = True
        n = tracks * 18
        d = Disc(origin=o, vol_len=end - o, drive="0" + opus_letter, colon=":0%s." % opus_letter, cat_secs=0, vols=vols)
    else:
        raise ValueError(variant)
    if body_writer:
        body_writer(img, d.origin)
    path = os.path.join(scratch, "%s.%s" % (tag, ext))
    mkdisc.write(path, bytes(img))
    d.__dict__.update(path=path, variant=variant, entries=list(entries), img=img, salt=salt, mfm=mfm, nsectors=n,
                      title_raw=list(bytes(title if isinstance(title, bytes) else title.encode("latin1"))[:12].ljust(12, b"\0")),
                      cycle=cycle, opt=opt)
    return d


# ---------------------------------------------------------------- projections of dfs output

def parse_info(out):
    """`info` lines -> list of dict(dir,name,lock,load,exec,len,start); None if a line does not parse."""
    res = []
    for line in out.decode("latin1").split("\n"):
        if line == "":
            continue
        if len(line) < 14 or line[1] != ".":
            return None
        nums = line[14:].split()
        if len(nums) != 4:
            return None
        try:
            v = [int(x, 16) for x in nums]
        except ValueError:
            return None
        res.append(dict(dir=ord(line[0]), name=[ord(c) for c in line[2:10].rstrip(" ")],
                        lock=1 if line[11:14].strip() == "L" else 0, load=v[0], exec=v[1], len=v[2], start=v[3]))
    return res


CELL = 20


def parse_cat(out, ui, cur):
    """`cat` output -> dict(title_obs, cycle_obs, opt_obs, dens_obs, shown=[[dir,name,lock],..]) or None."""
    lines = out.decode("latin1").split("\n")
    if len(lines) < 4:
        return None
    first = lines[0]
    second = lines[1]
    if ui == "opus":
        first = first[1:] if first.startswith(" ") else first
    cyc = list(re.finditer(r"\(([0-9A-Fa-f]{2})\)", first))
    if not cyc:
        return None
    c = cyc[-1]
    title = first[:c.start()]
    if title.endswith(" "):
        title = title[:-1]
    title = title.rstrip(" ")
    # the density follows the cycle number: on the same line, in the next column or (narrow layouts, Opus) on the next line
    hdr_end = lines.index("") if "" in lines else 4
    dens_text = first[c.end():] + " " + " ".join(lines[1:hdr_end])
    dens_text = dens_text.split("Drive ")[0]
    dens = "MFM" if ("MFM" in dens_text or "Double" in dens_text) else ("FM" if ("FM" in dens_text or "Single" in dens_text) else "?")
    optline = [x for x in lines[:(lines.index("") if "" in lines else 4)] if "Option" in x]
    if not optline:
        return None
    m = re.search(r"Option (\d)", optline[0])
    if not m:
        return None
    # list region: after the first empty line
    try:
        blank = lines.index("")
    except ValueError:
        return None
    region = lines[blank + 1:]
    # drop footer
    body = []
    for ln in region:
        if re.match(r"^\d\d files of \d+ on \d+ tracks$", ln) or ln == "No file":
            break
        body.append(ln)
    while body and body[-1] == "":
        body.pop()
    shown = []
    section_cur = True
    if body and body[0] == "":
        section_cur = False
        body = body[1:]
    for ln in body:
        if ln == "":
            section_cur = False
            continue
        for p in range(0, len(ln), CELL):
            cell = ln[p:p + CELL].strip(" ")
            if not cell:
                continue
            mm = re.match(r"^(\S+?)( {4}L)?$", cell)
            if not mm:
                return None
            text, lock = mm.group(1), 1 if mm.group(2) else 0
            if section_cur:
                shown.append([cur, [ord(ch) for ch in text], lock])
            else:
                if len(text) < 3 or text[1] != ".":
                    return None
                shown.append([ord(text[0]), [ord(ch) for ch in text[2:]], lock])
    return dict(title_obs=[ord(ch) for ch in title], cycle_obs=int(c.group(1), 16), opt_obs=int(m.group(1)),
                dens_obs=dens, shown=shown)


def parse_inf(text):
    """D.NAME LLLLLL EEEEEE SSSSSS [Locked ]CRC=XXXX"""
    t = text.decode("latin1").rstrip("\n")
    m = re.match(r"^(.)\.(\S*) ([0-9A-F]+) ([0-9A-F]+) ([0-9A-F]+) (Locked )?CRC=([0-9A-F]+)$", t, re.S)
    if not m:
        return None
    return dict(dir=ord(m.group(1)), name=[ord(c) for c in m.group(2)], load=int(m.group(3), 16), exec=int(m.group(4), 16),
                len=int(m.group(5), 16), lock=1 if m.group(6) else 0, crc=int(m.group(7), 16))
