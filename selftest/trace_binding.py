#!/usr/bin/env python3
"""Demonstrates that the trace specifications are bound to what they read: a good recorded trace is accepted, the same
trace with one field altered (or one hook event removed) is rejected."""
import sys, os, json
sys.path.insert(0, os.path.join(os.path.dirname(os.path.abspath(__file__)), "..", "lib"))
import common

def accepted(evs, enc="FM"):
    with common.Scratch("selftest") as s:
        tp = os.path.join(s, "t.ndjson")
        open(tp, "w").write("".join(json.dumps(e) + "\n" for e in evs))
        r = common.tlc("TraceTrackM", "TraceTrackM_%s.cfg" % enc, workers=1, env={"TRACE": tp}, want_cases=False, deque=True)
        return r.violated == "NotAccepted"

good = [dict(e="case", faults=["ok"] * 6, cut=6, partial=False)]
for r in range(3):
    good += [dict(e="id", enc="FM", ok=1, rec=r, pos=100), dict(e="data", enc="FM", res="yield", rec=r, pos=200)]
good.append(dict(e="end"))
bad_field = json.loads(json.dumps(good)); bad_field[3]["rec"] = 2          # second ID claims record 2 instead of 1
dropped = [e for i, e in enumerate(good) if i != 4]                          # the yield of sector 1 is missing
results = dict(good=accepted(good), altered_field=accepted(bad_field), removed_event=accepted(dropped))
print(results)
ok = results == dict(good=True, altered_field=False, removed_event=False)
# the batch judges (Trace*.tla with a `bad` set) are bound the same way: one wrong observed field -> that line is rejected
with common.Scratch("selftest") as s:
    tp = os.path.join(s, "c.ndjson")
    ev = dict(e="sector", kind="inter", cyl=40, spt=10, side=1, t=3, s=4, obs=(3 * 2 + 1) * 10 + 4)
    ev2 = dict(ev, obs=ev["obs"] + 1)
    open(tp, "w").write(json.dumps(ev) + "\n" + json.dumps(ev2) + "\n")
    okk, tr = common.validate_trace("TraceContainers", "TraceContainers.cfg", tp)
    print("TraceContainers bad lines:", tr.verdicts[-1]["bad"])
    ok = ok and okk and tr.verdicts[-1]["bad"] == [2]
print("BINDING OK" if ok else "BINDING BROKEN")
sys.exit(0 if ok else 1)
