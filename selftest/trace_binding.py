#!/usr/bin/env python3
"""Demonstrates that the trace specifications are bound to what they read: a good recorded trace is accepted, the same
trace with one field altered (or one hook event removed) is rejected."""
import sys, os, json
sys.path.insert(0, os.path.join(os.path.dirname(os.path.abspath(__file__)), "..", "lib"))
import common

def accepted(evs, enc="FM"):
    with common.Scratch("selftest") as s:
        tp = os.path.join(s, "t.ndjson")
        open(tp, "w").write("".join(json.dumps(e) + "\n" for e in evs))
        r = common.tlc("TraceTrackM", "TraceTrackM_%s.cfg" % enc, workers=1, env={"TRACE": tp}, want_cases=False, deque=True)
        return r.violated == "NotAccepted"

good = [dict(e="case", faults=["ok"] * 6, cut=6, partial=False)]
for r in range(3):
    good += [dict(e="id", enc="FM", ok=1, rec=r, pos=100), dict(e="data", enc="FM", res="yield", rec=r, pos=200)]
good.append(dict(e="end"))
bad_field = json.loads(json.dumps(good)); bad_field[3]["rec"] = 2          # second ID claims record 2 instead of 1
dropped = [e for i, e in enumerate(good) if i != 4]                          # the yield of sector 1 is missing
results = dict(good=accepted(good), altered_field=accepted(bad_field), removed_event=accepted(dropped))
print(results)
ok = results == dict(good=True, altered_field=False, removed_event=False)
# the batch judges (Trace*.tla with a `bad` set) are bound the same way: one wrong observed field -> that line is rejected
with common.Scratch("selftest") as s:
    tp = os.path.join(s, "c.ndjson")
    ev = dict(e="sector", kind="inter", cyl=40, spt=10, side=1, t=3, s=4, obs=(3 * 2 + 1) * 10 + 4)
    ev2 = dict(ev, obs=ev["obs"] + 1)
    open(tp, "w").write(json.dumps(ev) + "\n" + json.dumps(ev2) + "\n")
    okk, tr = common.validate_trace("TraceContainers", "TraceContainers.cfg", tp)
    print("TraceContainers bad lines:", tr.verdicts[-1]["bad"])
    ok = ok and okk and tr.verdicts[-1]["bad"] == [2]
# the read-stack trace specification: a recorded trace of the real dfs is accepted; the same trace with a view position off by
# one, the volume event removed, a cache hit carrying other data, or a body read beyond the file's last sector is rejected
import mkdisc, discs, readtrace
with common.Scratch("selftest") as s:
    bdir = common.build("ndebug")
    d = discs.build("OPUS", [mkdisc.entry("A", length=700, start=20)], s, "rs", salt=3, title=b"RS")
    o, evs = readtrace.record([common.exe(bdir, "dfs"), "--file", d.path, "type", "--binary", ":0B.$.A"], s, "good", ctx=dict(kind="plain1", cyl=80, spt=18, vols=[[d.origin, d.vol_len]]))
    def bad_lines(events):
        tp = os.path.join(s, "r.ndjson")
        open(tp, "w").write("".join(json.dumps(e) + "\n" for e in events))
        okk, tr = common.validate_trace("TraceReadStack", "TraceReadStack.cfg", tp)
        return tr.verdicts[-1]["bad"] if okk and tr.verdicts else None
    ib = next(i for i, e in enumerate(evs) if e["e"] == "body")
    iv = next(i for i in range(ib, len(evs)) if evs[i]["e"] == "vread")
    ivol = next(i for i in range(ib, len(evs)) if evs[i]["e"] == "volread")
    ih = next(i for i, e in enumerate(evs) if e["e"] == "cread" and e["hit"] == 1)
    m1 = json.loads(json.dumps(evs)); m1[iv]["pos"] += 1
    m2 = [e for i, e in enumerate(evs) if i != ivol]
    m3 = json.loads(json.dumps(evs)); m3[ih]["sum"] += 1
    m4 = json.loads(json.dumps(evs)); m4[ib]["sec"] = m4[ib]["last"] + 1
    m5 = json.loads(json.dumps(evs)); m5[0]["cyl"] = 40          # the harness claims another container: the view no longer matches
    m6 = json.loads(json.dumps(evs)); m6[0]["vols"] = [[d.origin, d.vol_len + 18]]     # the volume table says otherwise
    rs = dict(good=bad_lines(evs), other_volume=bad_lines(m6), view_pos=bad_lines(m1), no_volread=bad_lines(m2), cache_sum=bad_lines(m3), beyond_file=bad_lines(m4), other_container=bad_lines(m5))
    print("TraceReadStack (%d events, rc=%s):" % (len(evs), o.rc), rs)
    ok = ok and rs["good"] == [] and all(rs[k] for k in rs if k != "good")
# the storage hook events: a recorded two-file session is accepted; an attach under another number, a select handing out another device,
# and a read on a device nobody selected are rejected
with common.Scratch("selftest") as s:
    bdir = common.build("ndebug")
    a = discs.build("DFS", [mkdisc.entry("A", length=10, start=5)], s, "sa", nsectors=400, salt=3, title=b"SA")
    b0 = mkdisc.surface_dfs(400, 5, title=b"SB0"); b1 = mkdisc.surface_dfs(400, 6, title=b"SB1")
    pb = mkdisc.write(os.path.join(s, "sb.dsd"), mkdisc.container_interleaved(b0, b1, 10))
    o, evs = readtrace.record([common.exe(bdir, "dfs"), "--file", a.path, "--file", pb, "cat", "3"], s, "sh", kinds=readtrace.STORAGE_KINDS)
    def bad_lines2(events):
        tp = os.path.join(s, "sh.ndjson")
        open(tp, "w").write("".join(json.dumps(e) + "\n" for e in events))
        okk, tr = common.validate_trace("TraceStorageHook", "TraceStorageHook.cfg", tp)
        return tr.verdicts[-1]["bad"] if okk and tr.verdicts else None
    ia = [i for i, e in enumerate(evs) if e["e"] == "attach"]
    isel = next(i for i, e in enumerate(evs) if e["e"] == "select")
    m1 = json.loads(json.dumps(evs)); m1[ia[-1]]["drive"] = 2            # side 1 of the second image next to side 0 instead of opposite it
    m2 = json.loads(json.dumps(evs)); m2[isel]["dev"] = 0
    m3 = [e for i, e in enumerate(evs) if i != isel]
    rs2 = dict(good=bad_lines2(evs), attach_number=bad_lines2(m1), select_device=bad_lines2(m2), read_without_select=bad_lines2(m3))
    print("TraceStorageHook (%d events, rc=%s):" % (len(evs), o.rc), rs2)
    ok = ok and rs2["good"] == [] and all(rs2[k] for k in rs2 if k != "good")
print("BINDING OK" if ok else "BINDING BROKEN")
sys.exit(0 if ok else 1)
