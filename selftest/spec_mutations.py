#!/usr/bin/env python3
"""Non-vacuity of the model checks: each implementation-shaped model M is mutated the way a plausible code defect would change it
and TLC must then report the requirement violated (the unmutated spec must hold).  Run: python3 selftest/spec_mutations.py"""
import sys, os, re, shutil, tempfile, subprocess
sys.path.insert(0, os.path.join(os.path.dirname(os.path.abspath(__file__)), "..", "lib"))
import common

MUTATIONS = [
    ("Catalog", "Catalog_small.cfg", "MShown(a) == IF Bits(a, 17, 1) = 1 THEN a - Bits(a, 18, 6) * 262144 + 16515072 ELSE a",
     "MShown(a) == IF Bits(a, 17, 1) = 1 THEN a - Bits(a, 18, 6) * 262144 + 16711680 ELSE a", "sign extension ORs 0xFF0000"),
    ("Disc", "Disc_small.cfg", "VolAllows(lba) == lba < reg.L", "VolAllows(lba) == lba <= reg.L", "Volume::Access bound off by one"),
    ("Track", "Track_FM.cfg", "THEN /\\ yielded' = IF Reads(pos) /\\ faults[pos] = \"ok\" THEN Yield(pos) ELSE yielded",
     "THEN /\\ yielded' = IF Reads(pos) THEN Yield(pos) ELSE yielded", "records with a bad CRC are yielded"),
    ("Hfe3", "Hfe3_small.cfg", "thisop' = (IF b.o \\in {\"nop\", \"idx\"} THEN \"\" ELSE b.o)",
     "thisop' = (IF b.o \\in {\"nop\", \"idx\"} \\/ AtBlockStart THEN \"\" ELSE b.o)", "pending opcode forgotten at a block start"),
    ("Afsp", "Afsp_small.cfg", "MToken(c) == IF c = HASH THEN [k |-> \"any\"] ELSE IF c = STAR THEN [k |-> \"star\"]",
     "MToken(c) == IF c = HASH \\/ c = 94 THEN [k |-> \"any\"] ELSE IF c = STAR THEN [k |-> \"star\"]", "'^' acts as a wildcard"),
    ("Storage", "Storage_small.cfg", "              /\\ ~Occ(Opp(n))\n", "", "physical policy ignores the opposite surface"),
    ("Identify", "Identify_small.cfg", "MWatford(x) == /\\ ~(x.start # 0 /\\ x.start = 2)", "MWatford(x) == /\\ ~(x.start # 0 /\\ x.start % 256 = 2)", "Watford guard compares the low byte only"),
    ("HostFs", "HostFs_small.cfg", "MRefused == HasSlash(Basename)", "MRefused == FALSE", "names with '/' are extracted"),
    ("ReadStack", "ReadStack.cfg", "AfterVol(vl, c) == IF c < vl.len", "AfterVol(vl, c) == IF c <= vl.len", "volume bound off by one"),
    ("ReadStack", "ReadStack.cfg", "AfterCache(hit, c) == IF hit THEN Idle(c)", "AfterCache(hit, c) == IF FALSE THEN Idle(c)", None),   # equivalent: cache only saves work
    ("Extract", "Extract.cfg", 'HasSlashC(c) == c \\in {"out", "nil"}', 'HasSlashC(c) == c \\in {"nil"}', "escaping names not refused"),
    ("TrackCheck", "TrackCheck.cfg", "/\\ s[k].size = 256", "/\\ s[k].size >= 256", "oversize sectors accepted"),
    ("OpusTable", "OpusTable.cfg", "MWalk(t, srt, k - 1, t[srt[k]] * Spt)", "MWalk(t, srt, k - 1, nxt)", "every volume runs to the end of the disc"),
    ("Context", "Context.cfg", 'vol\' = IF t.k = "drive" THEN t.v ELSE vol', 'vol\' = IF t.k = "drive" THEN t.v ELSE IF t.k = "ui" THEN "" ELSE vol', "--ui drops the volume letter"),
    ("MmbDir", "MmbDir.cfg", "present' = IF MSlotPresent(dirv[k]) THEN present \\cup {k} ELSE present",
     "present' = IF MSlotPresent(dirv[k]) \\/ (dirv[k] = 255 /\\ (k - 1) \\in present) THEN present \\cup {k} ELSE present", "stale present flag"),
    ("OutStream", "OutStream_fixed.cfg", 'unchecked \\in IF profile = "c:flush" THEN', 'unchecked \\in IF profile \\in {"c:flush", "c:checked"} THEN', "an untested write"),
    ("Layout+Containers", "Containers_small.cfg", "ELSE IF k = \"inter\" THEN [skip |-> h * p, take |-> p, leave |-> p, total |-> c * p]",
     "ELSE IF k = \"inter\" THEN [skip |-> h * p, take |-> p, leave |-> 0, total |-> c * p]", "interleaved view without the stride"),
    ("Gzip", "Gzip_small.cfg", "MReadLen(size, pos, len) == IF pos >= size THEN 0 ELSE IF size - pos < len THEN size - pos ELSE len",
     "MReadLen(size, pos, len) == IF pos >= size THEN 0 ELSE len", "short reads padded"),
]


def main():
    ok = True
    for mod, cfg, old, new, what in MUTATIONS:
        module = mod.split("+")[-1]
        src_mod = mod.split("+")[0]
        with tempfile.TemporaryDirectory(dir=os.path.join(common.CACHE, "scratch")) as td:
            for f in os.listdir(common.SPEC):
                if f.endswith((".tla", ".cfg")) and "_TTrace_" not in f:
                    shutil.copy(os.path.join(common.SPEC, f), td)
            p = os.path.join(td, src_mod + ".tla")
            s = open(p).read()
            if old not in s:
                print("MUTATION TARGET MISSING in %s: %r" % (src_mod, old))
                ok = False
                continue
            open(p, "w").write(s.replace(old, new, 1))
            pr = subprocess.run(["java", "-XX:+UseParallelGC", "-Xmx4g", "-cp", "/opt/veriftools/tla/tla2tools.jar:/opt/veriftools/tla/CommunityModules-deps.jar",
                                 "tlc2.TLC", "-workers", "4", "-metadir", os.path.join(td, "meta"), "-config", cfg, "-noGenerateSpecTE", module + ".tla"],
                                cwd=td, stdout=subprocess.PIPE, stderr=subprocess.STDOUT, text=True, timeout=1800)
            m = re.search(r"Invariant (\w+) is violated|Temporal properties were violated|(\w+) is violated", pr.stdout)
            violated = bool(m)
            expect = what is not None
            status = "ok" if violated == expect else "UNEXPECTED"
            if violated != expect:
                ok = False
            print("%-10s %-22s mutated: %-48s -> %s%s [%s]" % (status, mod, what or "(equivalent mutation: must still hold)", "violated " if violated else "holds",
                                                             (m.group(1) or m.group(2) or "") if m else "", cfg))
    print("SPEC MUTATIONS OK" if ok else "SPEC MUTATIONS BROKEN")
    return 0 if ok else 1


if __name__ == "__main__":
    sys.exit(main())
