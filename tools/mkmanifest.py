#!/usr/bin/env python3
"""Regenerates /verif/MANIFEST.json from the table below (kept in one place so it is always schema-valid)."""
import json, os, sys, subprocess

VERIF = os.path.dirname(os.path.dirname(os.path.abspath(__file__)))

CHECKS = {
    "C16": dict(
        level="model_checking",
        text="TLC proves the implementation-shaped allocator model (PhysSlot = check_sequence_fits, FirstFree = the FIRST loop) "
             "satisfies the requirement relation RAttach (injective, append-only, first-fit, physical rule) for every option history "
             "within the constants; every such history is replayed through the real StorageConfiguration and a sample through the "
             "dfs CLI, and TLC (TraceStorage.tla) judges each observed step against RAttach/RRead.",
        note="Exhaustive only within MaxImages/Kinds; trusts h_storage's dummy drives, the --show-config/cat/type output projections and TLC.",
        technique="TLA+ model checking (TLC) + behaviour replay + TLC trace validation",
        design="6/C16"),
}

CHECKS["C02"] = dict(
    level="model_checking",
    text="TLC enumerates every well-formed catalogue within the constants (field boundary classes x all 3-file name/directory/lock "
         "orderings), proves the implementation-shaped field extraction and sign extension equal the documented format, and every "
         "catalogue is written to Acorn/Watford/Opus discs; info, cat (4 ui styles, 3 current directories), show-titles and .inf "
         "observations of the real dfs are judged by TraceCatalog.tla's requirement operators (RShown, RCatOrderOK, RTitle, CrcXmodem).",
    note="Bounded field classes (not all 2^16 low words); output projections in lib/discs.py are trusted; names restricted to printable non-blank ASCII.",
    technique="TLA+ model checking (TLC) + behaviour replay + TLC trace validation",
    design="6/C02")

CHECKS["C01"] = dict(
    level="model_checking",
    text="TLC checks the sector walk model (visit_file_body_piecewise through Volume::Access, FileView and the file) against the "
         "requirement ROutcome for every region kind / start / length class, and the rendering operators for consistency; the cases "
         "(plus Catalog.tla layouts with 10-bit starts and >64KiB lengths, seeded 31/62-file catalogues on Acorn, Watford and Opus discs, "
         "and RenderGen bodies) are replayed through type --binary, extract-files, type, list and dump on stamped images and TLC "
         "(TraceDisc.tla) judges byte origin and renderings.",
    note="Stamped sectors (shake128) identify where delivered bytes came from; dump's offset column is not judged; arbitrary body bytes "
         "are represented by pseudo-random stamps plus the RenderGen alphabet.",
    technique="TLA+ model checking (TLC) + behaviour replay + TLC trace validation",
    design="6/C01")
CHECKS["C17"] = dict(
    level="model_checking",
    text="TLC checks that the modelled bound checks (volume, surface view, file) never let a walk deliver a sector outside the addressed "
         "region and report an error when the extent passes it, for entries ending before/at/after each boundary; every case is scaled to "
         "real images (whole surface, both .dsd sides, MMB slot with neighbours, truncated file, Opus volume mid/last, file longer than the "
         "surface) and TraceDisc.tla judges the stamps of every delivered chunk and the exit status/diagnostic.",
    note="Foreign bytes are recognised by per-surface stamps; chunks shorter than a sector are first compared with the expected sector.",
    technique="TLA+ model checking (TLC) + behaviour replay + TLC trace validation",
    design="6/C17")

CHECKS["C14"] = dict(
    level="model_checking",
    text="TLC checks, for every well-formed layout of up to 3 files (empty/adjacent/gapped files, both Watford halves, Opus volume), that the "
         "coded space walk, sector map, extract-unused loop and free arithmetic equal the set-based requirement (maximal unowned runs); each "
         "layout is stretched to real sector numbers and, with seeded 31/62-file layouts, run through the four commands of the real dfs "
         "(ASan+UBSan build); TraceSpace.tla judges every observation, which also makes the commands agree with each other.",
    note="space's gap order is compared as a multiset; Watford well-formedness assumes the second catalogue's files lie above the first's; "
         "output projections in checks/c14.py are trusted.",
    technique="TLA+ model checking (TLC) + behaviour replay + TLC trace validation",
    design="6/C14")

CHECKS["C15"] = dict(
    level="model_checking",
    text="TLC checks the one-regex-element-per-character model of afsp.cc against the documented wildcard relation (RParse/Glob) for "
         "every wildcard over an alphabet containing all regex metacharacters and every catalogued file name, plus the man page's own "
         "examples; every wildcard is then run through the real AFSPMatcher and parse_filename + has_name against the same 540 files "
         "(about 2 million decisions), a sample through dfs info on real discs, and TraceAfsp.tla judges each selected set.",
    note="Bounded wildcard/name lengths; drives written with leading zeros and malformed drive parts are outside the judged domain; the "
         "directory letter of type/list/dump may compare case-sensitively or not.",
    technique="TLA+ model checking (TLC) + behaviour replay + TLC trace validation",
    design="6/C15")

CHECKS["C13"] = dict(
    level="model_checking",
    text="TLC checks probe_format's test sequence (HDFS bit, Watford recognition with the 10-bit start-sector guard, the parts of the Opus "
         "volume table, catalogue validity) against the marker definition for all 1152 marker combinations, and probe_geometry's choice "
         "against 'large enough'; every realisable combination is built as an image and the variant the real dfs treats it as, its chosen "
         "geometry and its listing are judged by TraceIdentify.tla, including equality of listings across discs that differ only in bodies.",
    note="The variant is observed through ui conventions of cat; marker-imitating bodies are represented by the aa2/start=2 and sector-16 "
         "field combinations; forging a complete Opus table is excluded by the statement.",
    technique="TLA+ model checking (TLC) + behaviour replay + TLC trace validation",
    design="6/C13")

CHECKS["C04"] = dict(
    level="model_checking",
    text="TLC proves, for every geometry (35/40/80 tracks x 10/16/18 sectors, one/two sides, interleaved or not) and every sector "
         "including one past the end, that the FileView (skip, take, leave, total) arithmetic equals the documented offset, never "
         "lands on another side and fails beyond the end, and that the MMB status rule equals doc/mmb.5; containers stamped with their "
         "own file positions are read back through dump-sector (boundary sectors in quick, complete sweeps in thorough, six MMB slots up "
         "to 510, all 256 status bytes) and TraceContainers.tla judges every observation.",
    note="16-sector geometries and side 1 of a two-sided .ssd/.sdd are unreachable through the geometry probe and are covered at spec level only.",
    technique="TLA+ model checking (TLC) + behaviour replay + TLC trace validation",
    design="6/C04")

CHECKS["C12"] = dict(
    level="model_checking",
    text="TLC checks extract-files' path construction, with POSIX resolution of '/', '.', '..' over a host tree (parent, sibling, "
         "destination, sub-directory), against 'created files are direct children of the destination' for every name/directory "
         "character over a hostile alphabet, and that the requirement is not vacuous (an escaping name exists for unchecked "
         "concatenation); discs carrying those names are extracted in sandbox trees (relative/absolute destination, with/without "
         "trailing slash), every other command is run too, and TraceHostFs.tla judges before/after snapshots and the image hash.",
    note="No symlinks in the host tree; snapshots compare paths, types and content hashes; a failing run that creates nothing is accepted.",
    technique="TLA+ model checking (TLC) + behaviour replay + TLC trace validation",
    design="6/C12")

CHECKS["C03"] = dict(
    level="model_checking",
    text="TLC checks the reader/decoder step machine of lines.c against the documented listing function RProgram for every byte string "
         "over token-class alphabets in both framings (about 650k states); real-width sweeps (every byte as a token in all ten dialect "
         "names, every extension pair, line-number references, header numbers, LISTO 0..7 x loop nestings incl. loop bytes inside "
         "strings, strings holding every byte, all body lengths) run through the real binary from file and stdin, and TraceBasic.tla "
         "judges each listing byte for byte against RProgram with tables generated from the golden token map.",
    note="Token tables are taken from basic/testdata/golden-token-map.txt (pinned by the repository's own test); inputs the documents "
         "leave open are classified 'unspec' and judged for cleanliness only.",
    technique="TLA+ model checking (TLC) + behaviour replay + TLC trace validation",
    design="6/C03")
CHECKS["C09"] = dict(
    level="model_checking",
    text="TLC checks for every byte string over the framing alphabet (both framings, about 2.5M states) that the reader model rejects what "
         "the requirement calls ill-formed and that output only grows; every proper prefix and every single-byte framing corruption of 15 "
         "well-formed programs and every order of 1..3/4 input files from {valid, valid, truncated, corrupt, one-byte-short} run through "
         "the real binary; TraceBasic.tla judges rejection, the prefix relation against the intact listing and per-file independence.",
    note="A truncation is any proper non-empty prefix; the static line buffer is part of the model state.",
    technique="TLA+ model checking (TLC) + behaviour replay + TLC trace validation",
    design="6/C09")
CHECKS["C08"] = dict(
    level="exploration",
    text="The Basic.tla reader model supplies every byte string of length <= 4 over the framing alphabet in both framings as hostile input; "
         "with seeded random / mutated / length-sweep inputs and the whole option grammar they are run through the ASan+UBSan build, and "
         "the pinned NDEBUG build under valgrind (uninitialised option state); TraceBasic.tla judges the outcome alphabet and the listing.",
    note="Memory safety is observed by sanitizers and valgrind, not decided by TLC.",
    technique="TLC-generated hostile inputs + sanitizer/valgrind replay + TLC trace validation",
    design="6/C08")

CHECKS["C06"] = dict(
    level="model_checking",
    text="TLC explores every assignment of faults (intact, body damaged, mark destroyed, deleted-data) to the ID and data fields of a "
         "3-sector track and every truncation point, for the FM and MFM decoder models (about 200k states), checking that every yielded "
         "sector pairs an address with the payload recorded under it, both intact; every case is turned into a real bit-stream with "
         "faults placed at bit level and decoded by the real decoders (ASan+UBSan), with adversarial raw streams and whole damaged "
         "HFE / HxC MFM images read back through dfs; TraceTrack.tla judges the yields and reads.",
    note="Item-level model: a field is a unit; the ID CRC of a yield is observed through the fault assignment, the data CRC is recomputed.",
    technique="TLA+ model checking (TLC) + behaviour replay + TLC trace validation",
    design="6/C06")
CHECKS["C05"] = dict(
    level="model_checking",
    text="TLC checks the fault-free decoder behaviours (every sector yielded once, in order) and the HFEv3 opcode interpreter with block "
         "de-interleaving against 'opcodes are transparent' for every placement of up to two opcodes; seeded discs are recorded as HFE v1, "
         "HFE v3 (opcode placements from the TLC cases mapped onto real 256-byte block boundaries) and HxC MFM with varied gaps, sync "
         "lengths, sector order, skew, 10/16/18 sectors, one and two sides, and every command's output is compared with the sector dump; "
         "TraceFlux.tla judges the comparisons.",
    note="The flux encoder is ours (lib/mkflux.py); SKIPBITS is a listed known finding.",
    technique="TLA+ model checking (TLC) + differential behaviour replay + TLC trace validation",
    design="6/C05")

CHECKS["C10"] = dict(
    level="model_checking",
    text="TLC checks the nested inflate loops of img_gzfile.cc over an abstract zlib (its contract) for every member structure, truncation "
         "point and corrupted unit within the constants: termination under fairness, rejection of damaged streams, complete output "
         "(single-member requirement; the all-members requirement is evaluated too and its violation predicts the listed known finding); "
         "a corpus of every container type (incl. catalogue totals whose geometry depends on name hints) is compressed at levels 0/1/6/9 "
         "with FNAME padding placing the compressed size at 0/1/511 mod 512, and every command is compared between X and X.gz; every "
         "truncation and one-bit-per-byte corruption of a small .gz is run; TraceGzip.tla judges.",
    note="zlib is abstracted to its contract; the gzip writer is ours (RFC 1952) on top of Python's raw deflate; multi-member files are a listed known finding.",
    technique="TLA+ model checking incl. liveness (TLC) + differential behaviour replay + TLC trace validation",
    design="6/C10")

CHECKS["C11"] = dict(
    level="model_checking",
    text="TLC checks, for every chunking of the output, buffer capacity and byte offset at which the device starts refusing writes, that "
         "the flush-then-test-then-report profile never exits 0 with unaccepted output and always reports failure (and that the "
         "unchecked profiles do violate it, so the requirement is not vacuous); every command of dfs and bbcbasic_to_text is run with "
         "stdout limited by RLIMIT_FSIZE to k bytes (0, 1, stdio buffer boundaries, L/2, L-1, L; dense sweeps in thorough), to /dev/full "
         "and to a closed pipe, and extract-files/extract-unused with the limit on each created file; TraceOutStream.tla judges every "
         "observation (bytes accepted, exit status, diagnostic).",
    note="Fault injection by RLIMIT_FSIZE (EFBIG) stands for any refusing device; stdout as regular file, character device and pipe.",
    technique="TLA+ model checking (TLC) + fault-injection replay + TLC trace validation",
    design="6/C11")

CHECKS["C07"] = dict(
    level="exploration",
    text="Hostile.tla enumerates every combination of relations between header-declared quantities and the actual file for each container "
         "parser (104k combinations) and proves the file-driven track-list walk terminates; Cli.tla enumerates 317k option/command "
         "sequences with the required outcome alphabet; sampled combinations, command lines and seeded byte-level havoc of valid images "
         "of every container are run through the ASan+UBSan build (libstdc++ assertions on) with a peak-memory measurement on the pinned "
         "build, and TraceCli.tla judges the outcome alphabet (return 0/1/2, diagnostic when non-zero, no signal/sanitizer/timeout, "
         "allocation bound).",
    note="Memory safety and UB are observed by sanitizers, not decided by TLC; quick samples the enumerations, thorough runs ten times more.",
    technique="TLC-enumerated hostile inputs and command lines + sanitizer replay + TLC trace validation",
    design="6/C07")
CHECKS["C18"] = dict(
    level="exploration",
    text="Cli.tla states the non-interference property (the outcome is a function of the command line with --verbose/--show-config removed) "
         "and TLC checks it over all option sequences; a corpus of sessions over valid, hostile and flux images is re-run with each "
         "diagnostic option at each position, with every --ui style and on a pseudo-terminal with COLUMNS 20/40/80; TraceDiff.tla judges "
         "byte-equality of stdout and exit status, and for cat equality of projected content; every session is also run twice.",
    note="Differential (2-run) exploration; stderr is not compared.",
    technique="TLA+ model checking of the non-interference statement + differential replay + TLC trace validation",
    design="6/C18")
CHECKS["C19"] = dict(
    level="exploration",
    text="The NDEBUG build and the assertion build of the working tree replay the same sessions (all containers and commands, hostile "
         "header combinations from Hostile.tla, BASIC programs in all dialect names and with no --dialect); TraceDiff.tla judges equality "
         "of stdout and exit status, excusing runs the assertion build stops on a failed assertion; a source scan lists every assert() "
         "whose argument calls a function or assigns.",
    note="Differential exploration over a finite corpus.",
    technique="differential replay on two builds + TLC trace validation",
    design="6/C19")

PENDING_REASON = "check not built yet in this session (work in progress; design in DESIGN.md section 6)"


# later rounds: what was added to each check (appended to the level notes)
ADDENDA = {
    "C01": "Round 3: a one-sided disc in a two-sided image (side 1 never formatted).",
    "C03": "Rounds 2-3: one-line loops; three-line programs over {quote, 0x8D, FOR, NEXT} (TLC, Basic_*_str.cfg) listed by the real binary; "
           "a program listed after programs with unbalanced loops is what it is alone.",
    "C04": "Rounds 2-3: MmbDir.tla (directory scan; de Bruijn directory of status bytes), 11-bit catalogue totals, two-file sessions of different "
           "geometry, an uncatalogued second side; hook events of every layer of the reads are replayed through ReadStack.tla "
           "(TraceReadStack.tla) with the container's documented layout as context.",
    "C05": "Rounds 2-3: Opus/Watford and two-sided flux, SKIPBITS in a track's final gap, blank side 1; read-stack hook events of flux image "
           "and sector dump of the same surface must deliver the same data for every drive sector (TraceReadStack.tla content agreement).",
    "C07": "Rounds 2-3: TrackCheck.tla (CRC-valid flux for every sorted sector list: size codes, wrong cylinder/head, duplicate/missing records), "
           "MMB slot status x command x drive matrix, multi-drive command matrix over pairs of image files.",
    "C08": "Round 3: programs whose loop depth accumulates over lines (unbounded indentation), long runs of outdents.",
    "C09": "Rounds 2-3: stale-state phase (every end-of-line byte value alone and after a poison file), empty-body lines, leading 3-byte "
           "little-endian lines cut at line boundaries, unbalanced programs in the multi-file orders.",
    "C10": "Rounds 2-3: RReadBack (blocks of the decompressed copy), images trimmed inside a sector, full 511-slot and 7-slot MMB, interleaved / "
           "anomalous flux; read-stack hook events of X and X.gz form one group and must agree sector by sector.",
    "C11": "Rounds 2-3: C-stdio profiles (tested/untested writes, mid-output fflush, several input files) in OutStream.tla; buffer-aligned "
           "listings; warning paths; the closed pipe is created in the child.",
    "C12": "Rounds 2-3: Extract.tla (whole extraction runs over catalogue fragments, escaping names at every position of both Watford fragments "
           "and in Opus volumes); files left in the system temporary directory (private mount namespace with an empty tmpfs on /tmp).",
    "C13": "Rounds 2-3: zero-length file at sector 2, one-track Opus volume, identification per surface (ordered pairs of variants as two files "
           "and as the two sides of one image).",
    "C14": "Rounds 2-3: several drives in one `space` / `free` run, each drive's section judged (a blank disc among them).",
    "C15": "Rounds 2-3: RFind (catalogue walk over fragments behind type/list/dump) on catalogues with 0..31 entries in the first Watford "
           "fragment; Context.tla: every sequence of --drive/--dir/--ui/--verbose/--show-config options, observed through `type F` and `info *`.",
    "C16": "Rounds 2-3: block reads through the sector cache; images with a never-formatted second side in the CLI histories.",
    "C17": "Rounds 2-3: OpusTable.tla (every start-track table; volumes in any track order, one-track volumes) with files ending on and past each "
           "volume's last sector; MMB slot behind an unformatted one; lengths needing bits 16-17; read-stack hook events replayed through "
           "ReadStack.tla with the extents the requirement defines as context.",
    "C18": "Rounds 2-3: option orders with --drive NL; interleaved/anomalous flux in the corpus; COLUMNS exported with stdout a file; unwritable "
           "standard error.",
    "C19": "Rounds 2-3: interleaved flux, two-digit drive numbers (7-slot MMB) in multi-drive commands.",
}
for _k, _v in ADDENDA.items():
    CHECKS[_k]["text"] = CHECKS[_k]["text"] + " " + _v


def main():
    props = [json.loads(l)["id"] for l in open(os.path.join(VERIF, "properties.jsonl"))]
    hooks_commits = []
    try:
        out = subprocess.run(["git", "-C", "/repo", "log", "--format=%H %s"], stdout=subprocess.PIPE, text=True).stdout
        hooks_commits = [l.split()[0] for l in out.splitlines() if " verif-hook:" in l or l.split(" ", 1)[1].startswith("verif-hook")]
    except Exception:
        pass
    m = dict(
        version=1,
        setup_cmd="tools/setup.sh",
        hooks=dict(guard="BEEBTOOLS_VERIF",
                   enable="checks build /repo's working tree via harness/CMakeLists.txt with -DBEEBTOOLS_VERIF (flavors san/ndebug/assert in lib/common.py); "
                          "tracing is further gated at run time by env BEEBTOOLS_VERIF_TRACE=<path>",
                   baseline_off_cmd="tools/baseline_off.sh",
                   source_commits=hooks_commits,
                   add_only=True),
        engines=[dict(name="tlc", path="/opt/veriftools/tla/tla2tools.jar", serves_properties=sorted(CHECKS),
                      kind_free_text="TLA+ explicit-state model checker; also used as trace validator (spec/Trace*.tla)")],
        checks=[],
        notes="Every check: TLC model-checks spec/<Module>.tla (M |= R), emits behaviours that are replayed into binaries built from "
              "/repo's working tree, and TLC judges the recorded observations (spec/Trace*.tla). Exit 2 = machinery failure.",
        not_applicable=[],
    )
    for pid in props:
        if pid in CHECKS:
            c = CHECKS[pid]
            m["checks"].append(dict(
                property_id=pid,
                quick_cmd="checks/check %s --tier quick" % pid,
                thorough_cmd="checks/check %s --tier thorough" % pid,
                evidence_file="evidence/%s.json" % pid,
                replay_cmd_template="checks/check %s --replay {path}" % pid,
                engine="tlc",
                level_claimed=dict(category=c["level"], text=c["text"], design_ref=c["design"]),
                level_note=c["note"],
                technique=c["technique"]))
        else:
            m["not_applicable"].append(dict(property_id=pid, reason=PENDING_REASON))
    with open(os.path.join(VERIF, "MANIFEST.json"), "w") as f:
        json.dump(m, f, indent=1)
        f.write("\n")
    try:
        import jsonschema
        jsonschema.validate(m, json.load(open("/root/.vp/MANIFEST.schema.json")))
        print("MANIFEST.json valid,", len(m["checks"]), "checks")
    except ImportError:
        print("MANIFEST.json written (jsonschema not available to validate)")


main()
