#!/bin/sh
# tools/try_mutant.sh <dir with patch.diff + demo.(py|sh)> <check id>...
# 1. confirms in a scratch worktree: patch applies, builds, the 39 tests pass, demo passes on the unmodified build and fails on the mutated one
# 2. applies the patch to /repo, runs the named checks (quick), and undoes it.
set -u
D=$(cd "$1" && pwd); shift
W=/var/tmp/mutwt${NOREPO:+-$$}      # NOREPO=1: checks run against the scratch worktree (VERIF_REPO), /repo is left alone; several may run at once
HEAD=$(git -C /repo rev-parse --short HEAD)
ORIG=/var/tmp/mutorig-$HEAD
build() { cmake -G Ninja -S "$1" -B "$2" -DCMAKE_BUILD_TYPE=RelWithDebInfo -DCMAKE_C_FLAGS=-Wno-error -DCMAKE_CXX_FLAGS=-Wno-error >/dev/null 2>&1 && cmake --build "$2" -j16 >/dev/null 2>&1; }
# (one builder at a time: several of these may be started together)
exec 9>/var/tmp/mutorig.lock; flock 9
if [ ! -x "$ORIG/dfs/dfs" ] || [ ! -x "$ORIG/basic/bbcbasic_to_text" ]; then rm -rf /var/tmp/mutorig-*; build /repo "$ORIG" || { echo "orig build failed"; exit 2; }; fi
if [ -n "${DEMO2:-}" ] && [ ! -x "$ORIG-dbg/dfs/dfs" ]; then
  cmake -G Ninja -S /repo -B "$ORIG-dbg" -DCMAKE_BUILD_TYPE=Debug -DCMAKE_C_FLAGS=-Wno-error -DCMAKE_CXX_FLAGS=-Wno-error >/dev/null 2>&1 && cmake --build "$ORIG-dbg" -j16 >/dev/null 2>&1 || { echo "orig debug build failed"; exit 2; }
fi
flock -u 9
git -C /repo worktree remove --force $W >/dev/null 2>&1; rm -rf $W
git -C /repo worktree add -q $W HEAD || exit 2
if ! git -C $W apply "$D/patch.diff"; then echo "RESULT $D: patch does not apply"; git -C /repo worktree remove --force $W; exit 3; fi
if ! build $W $W/_build; then echo "RESULT $D: does not compile"; git -C /repo worktree remove --force $W; exit 3; fi
T=$(ctest --test-dir $W/_build -j8 --timeout 900 2>&1 | grep -E "tests passed|tests failed")
DEMO=$(ls "$D"/demo.* | head -1)
run_demo() { case "$DEMO" in *.py) python3 "$DEMO" "$@";; *) sh "$DEMO" "$@";; esac >/dev/null 2>&1; echo $?; }
if [ -n "${DEMO2:-}" ]; then
  # C19 demonstrations compare an assertion-enabled build (first argument) with the NDEBUG one (second)
  buildd() { cmake -G Ninja -S "$1" -B "$2" -DCMAKE_BUILD_TYPE=Debug -DCMAKE_C_FLAGS=-Wno-error -DCMAKE_CXX_FLAGS=-Wno-error >/dev/null 2>&1 && cmake --build "$2" -j16 >/dev/null 2>&1; }
  [ -x "$ORIG-dbg/dfs/dfs" ] || buildd /repo "$ORIG-dbg" || { echo "orig debug build failed"; exit 2; }
  buildd $W $W/_build_dbg || { echo "RESULT $D: debug build does not compile"; exit 3; }
  TD=$(ctest --test-dir $W/_build_dbg -j8 --timeout 900 2>&1 | grep -E "tests passed|tests failed")
  T="$T (assertion-enabled build: $TD)"
  DO=$(run_demo "$ORIG-dbg" "$ORIG"); DM=$(run_demo "$W/_build_dbg" "$W/_build")
else
DO=$(run_demo "$ORIG"); DM=$(run_demo "$W/_build")
fi
echo "CONFIRM $D: tests: $T | demo on original: exit $DO | demo on mutant: exit $DM"
if [ -n "${NOREPO:-}" ]; then
  rm -rf $W/_build $W/_build_dbg
  for c in "$@"; do
    out=$(cd /verif && VERIF_REPO=$W VERIF_EVIDENCE_DIR=/var/tmp/beebtools-verif/scratch/ev-mut-$$ checks/check $c --tier quick 2>&1); rc=$?
    echo "CHECK $c on $D: rc=$rc $(echo "$out" | grep -E "signature|MACHINERY" | head -4 | tr '\n' '|' | cut -c1-300)"
  done
  git -C /repo worktree remove --force $W; rm -rf /var/tmp/beebtools-verif/scratch/ev-mut-$$
  exit 0
fi
git -C /repo worktree remove --force $W
if git -C /repo status --short | grep -q .; then echo "/repo not clean"; exit 2; fi
git -C /repo apply "$D/patch.diff" || exit 2
for c in "$@"; do
  out=$(cd /verif && VERIF_EVIDENCE_DIR=/var/tmp/beebtools-verif/scratch/ev-mut checks/check $c --tier quick 2>&1); rc=$?   # committed evidence is not overwritten
  echo "CHECK $c on $D: rc=$rc $(echo "$out" | grep -E "signature|MACHINERY" | head -4 | tr '\n' '|' | cut -c1-300)"
done
git -C /repo checkout -- .
git -C /repo status --short | head -3
