#!/bin/sh
# tools/confirm_seeded.sh [glob]   re-runs tools/try_mutant.sh (patch applied to /repo itself, checks run, patch undone) for the kept
# seeded defects whose directory name matches the glob (default: all), one after the other.  Nothing else may use /repo meanwhile.
cd "$(dirname "$0")/.."
for d in seeded/${1:-*}/; do
  [ -f "$d/meta.json" ] || continue
  p=$(python3 -c "import json,sys; print(json.load(open('$d/meta.json'))['property'])")
  if [ "$p" = "C19" ]; then DEMO2=1 tools/try_mutant.sh "$d" $p; else tools/try_mutant.sh "$d" $p; fi 2>&1 | grep -E "CONFIRM|CHECK|RESULT|not clean" | cut -c1-300
done
