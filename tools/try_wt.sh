#!/bin/sh
# tools/try_wt.sh <dir with patch.diff> <check id>...   development aid: runs checks against a scratch worktree carrying the
# patch (VERIF_REPO), leaving /repo alone, so several can run at once.  Final confirmation is tools/try_mutant.sh.
set -u
D=$(cd "$1" && pwd); shift
W=/var/tmp/mw-$$
git -C /repo worktree add -q $W HEAD || exit 2
if ! git -C $W apply "$D/patch.diff"; then echo "RESULT $D: patch does not apply"; git -C /repo worktree remove --force $W; exit 3; fi
for c in "$@"; do
  out=$(cd /verif && VERIF_REPO=$W VERIF_EVIDENCE_DIR=/var/tmp/beebtools-verif/scratch/ev-$$ checks/check $c --tier ${TIER:-quick} 2>&1); rc=$?
  echo "CHECK $c on $D: rc=$rc $(echo "$out" | grep -E "signature|MACHINERY" | head -4 | tr '\n' '|' | cut -c1-300)"
done
git -C /repo worktree remove --force $W
rm -rf /var/tmp/beebtools-verif/scratch/ev-$$
