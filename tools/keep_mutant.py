#!/usr/bin/env python3
"""tools/keep_mutant.py <src dir> <id> <property> <caught-by signatures...>  -> /verif/seeded/<id>/"""
import sys, os, shutil, json
src, mid, prop = sys.argv[1:4]
caught = sys.argv[4:]
dst = os.path.join(os.path.dirname(os.path.dirname(os.path.abspath(__file__))), "seeded", mid)
os.makedirs(dst, exist_ok=True)
for fn in os.listdir(src):
    if fn.startswith(("patch", "demo", "notes")):
        shutil.copy(os.path.join(src, fn), dst)
notes = open(os.path.join(src, "notes.txt"), errors="replace").read() if os.path.exists(os.path.join(src, "notes.txt")) else ""
meta = dict(id=mid, property=prop, origin="independent sub-agent given only the property text and a scratch worktree",
            needs_to_manifest=notes[:1500],
            confirmed="applied to a scratch worktree of /repo HEAD: builds, 39/39 existing tests pass, demo exits 0 on the unmodified build and non-zero on the mutant (tools/try_mutant.sh)",
            detection=dict(check=prop, result="VIOLATION" if caught else "MISSED", signatures=caught),
            how_to_rerun="git -C /repo apply seeded/%s/patch.diff && checks/check %s --tier quick; git -C /repo checkout -- ." % (mid, prop))
json.dump(meta, open(os.path.join(dst, "meta.json"), "w"), indent=1)
print("kept", dst)
