#!/bin/sh
# Runs every registered check (quick or thorough tier) sequentially; prints one line per check.
tier=${1:-quick}
cd "$(dirname "$0")/.."
for p in C01 C02 C03 C04 C05 C06 C07 C08 C09 C10 C11 C12 C13 C14 C15 C16 C17 C18 C19; do
  s=$(date +%s)
  out=$(checks/check $p --tier $tier 2>&1); rc=$?
  e=$(date +%s)
  echo "$p rc=$rc $((e-s))s $(echo "$out" | grep -E "^(VIOLATION|KNOWN-FINDING|MACHINERY)" | cut -c1-150 | tr '\n' '|')"
done
