#!/bin/sh
# Offline setup: check the tools are there, parse every spec, and warm the build cache from /repo's tree.
set -e
cd "$(dirname "$0")/.."
command -v java cmake ninja python3 g++ >/dev/null
for f in spec/*.tla; do f=$(basename $f); case "$f" in *_TTrace_*) continue;; esac
  (cd spec && tla-sany "$f" >/dev/null 2>&1) || { echo "SANY failed on $f"; (cd spec && tla-sany "$f" | tail -20); exit 1; }
done
python3 - <<'PY'
import sys; sys.path.insert(0, 'lib')
import common
for f in ('san', 'ndebug', 'plain', 'assert'):
    common.build(f)
print("setup ok")
PY
