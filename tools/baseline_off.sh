#!/bin/sh
# Builds /repo with the BEEBTOOLS_VERIF guard OFF exactly as the pinned configuration and runs its test suite.
set -e
B=/var/tmp/beebtools-verif/baseline-off
rm -rf "$B"; mkdir -p "$B"
cmake -G Ninja -S /repo -B "$B" -DCMAKE_BUILD_TYPE=RelWithDebInfo -DCMAKE_C_FLAGS=-Wno-error -DCMAKE_CXX_FLAGS=-Wno-error >/dev/null
cmake --build "$B" -j16 >/dev/null
ctest --test-dir "$B" -j8 --timeout 900
rc=$?
rm -rf "$B"
exit $rc
