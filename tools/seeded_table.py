#!/usr/bin/env python3
"""Writes seeded/README.md from seeded/*/meta.json"""
import os, json
root = os.path.join(os.path.dirname(os.path.dirname(os.path.abspath(__file__))), "seeded")
rows = []
for d in sorted(os.listdir(root)):
    mp = os.path.join(root, d, "meta.json")
    if os.path.exists(mp):
        m = json.load(open(mp))
        rows.append("| %s | %s | %s | %s |" % (m["id"], m["property"], m["detection"]["result"], ", ".join(m["detection"]["signatures"])[:120]))
open(os.path.join(root, "README.md"), "w").write(
    "# Seeded defects\n\nEach directory: patch.diff (apply with `git -C /repo apply`), demo.* (exit 0 on the unmodified build), notes.txt, meta.json.\n"
    "Re-run one: `tools/try_mutant.sh seeded/<id> <property>`.\n\n| id | property | quick check | violation signatures |\n|---|---|---|---|\n" + "\n".join(rows) + "\n")
print(len(rows), "rows")
