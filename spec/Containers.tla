------------------------------ MODULE Containers ------------------------------
(***************************************************************************)
(* Sector-dump containers (C04): where logical sector s of track t of a    *)
(* surface lives in the file.                                              *)
(* R: ROffset, from doc/dfs.1 (DISC IMAGE FILES) and doc/mmb.5.            *)
(* M: the FileView (initial_skip, take, leave, total) built by             *)
(*    NonInterleavedFile / InterleavedFile / MmbFile and FileView::read_block.*)
(* Units are sectors (256 bytes).                                          *)
(***************************************************************************)
EXTENDS Layout, Json       \* Layout.tla: FAIL, ROffset (R), View and MRead (M), shared with ReadStack.tla

CONSTANTS Cyls, Spts, MmbSlots

VARIABLES kind, cyl, spt, side, x      \* x: logical sector number within the surface (t * spt + s), may be past the end
vars == <<kind, cyl, spt, side, x>>

Kinds == {"plain1", "plain2", "inter", "mmb"}    \* one-sided .ssd/.sdd, two-sided .ssd/.sdd, .dsd/.ddd, .mmb
SidesOf(k) == IF k = "plain1" THEN {0} ELSE IF k = "mmb" THEN MmbSlots ELSE {0, 1}
SurfaceLen(k, c, p) == IF k = "mmb" THEN 800 ELSE c * p

-----------------------------------------------------------------------------
Init == /\ kind \in Kinds
        /\ cyl \in (IF kind = "mmb" THEN {80} ELSE Cyls) /\ spt \in (IF kind = "mmb" THEN {10} ELSE Spts)
        /\ side \in SidesOf(kind)
        /\ x \in 0..(SurfaceLen(kind, cyl, spt) + 1)
Next == UNCHANGED vars
T == x \div spt
S == x % spt
ViewEqualsOffset == MRead(View(kind, cyl, spt, side), x) = ROffset(kind, cyl, spt, side, T, S)
BeyondEndFails == (x >= SurfaceLen(kind, cyl, spt)) => MRead(View(kind, cyl, spt, side), x) = FAIL
\* distinct surfaces of one file never share a sector: the offset determines (side, track, sector)
FileLen(k, c, p) == IF k = "mmb" THEN 32 + 511 * 800 ELSE IF k = "plain1" THEN c * p ELSE 2 * c * p
InvSide(k, c, p, off) == IF k = "mmb" THEN (off - 32) \div 800 ELSE IF k = "inter" THEN (off \div p) % 2 ELSE off \div (c * p)
SidesDisjoint == LET off == ROffset(kind, cyl, spt, side, T, S) IN
                 off # FAIL => (off < FileLen(kind, cyl, spt) /\ InvSide(kind, cyl, spt, off) = side)
\* doc/mmb.5: only disc types 00 (read-only) and 0F (read-write) are discs; everything else is not formatted
RSlotPresent(status) == status \in {0, 15}
MSlotPresent(status) == status = 0 \/ status = 15
MmbStatusRule == \A st \in 0..255 : MSlotPresent(st) = RSlotPresent(st)
\* emit only the boundary neighbourhood of every surface (the replay adds complete sweeps itself)
Interesting == T \in {0, 1, cyl - 1} \/ x >= SurfaceLen(kind, cyl, spt) - 1
Emit == (Interesting /\ S \in {0, 1, 2, spt - 1}) =>
          PrintT(<<"CASE", ToJson([kind |-> kind, cyl |-> cyl, spt |-> spt, side |-> side, t |-> T, s |-> S])>>)
=============================================================================
