INIT Init
NEXT Next
CONSTANTS Chars = {97, 47, 46, 45, 32, 1, 115}
 MaxName = 4
 DirChars = {36, 47, 46}
 CurDir = 36
INVARIANT StaysInside
INVARIANT EscapeExists
INVARIANT Emit
CHECK_DEADLOCK FALSE
