SPECIFICATION Spec
CONSTANTS MTab <- TabSmall
 MLe = TRUE
 MListo = 7
 Alphabet = {13, 0, 1, 34, 65, 141, 227, 237, 245, 198, 152, 200, 24}
 MaxLen = 4
 Prefixes <- LePrefix
 Suffixes <- LeSuffix
INVARIANT MeetsR
PROPERTY OutGrows
CHECK_DEADLOCK FALSE
