INIT Init
NEXT Next
CONSTANTS Cyls = {1, 2, 3, 5, 8, 13, 21, 34, 35, 36, 39, 40, 41, 55, 79, 80, 81, 85}
 Spts = {1, 2, 3, 5, 8, 9, 10, 11, 15, 16, 17, 18, 19, 20}
 MmbSlots = {0, 1, 2, 3, 100, 254, 255, 256, 509, 510}
INVARIANT ViewEqualsOffset
INVARIANT BeyondEndFails
INVARIANT SidesDisjoint
INVARIANT MmbStatusRule
CHECK_DEADLOCK FALSE
