SPECIFICATION TSpec
INVARIANT Final
POSTCONDITION Accepted
CHECK_DEADLOCK FALSE
