SPECIFICATION FairSpec
CONSTANTS MaxMembers = 2
 MaxCin = 3
 Ratios = {0, 1, 3}
 InBuf = 2
 OutBuf = 3
INVARIANT RRejectsDamaged
INVARIANT RAccepts
INVARIANT RAcceptsSound
INVARIANT RReadBack
PROPERTY Terminates
CHECK_DEADLOCK FALSE
