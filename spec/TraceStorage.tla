---------------------------- MODULE TraceStorage ----------------------------
(* Judges what the real StorageConfiguration did (h_storage / dfs --show-config observations) against   *)
(* the requirement-level relation RAttach of Storage.tla.  Every event is consumed; a step the           *)
(* requirement does not allow puts the history id into `bad` (so one TLC run judges a whole batch), a    *)
(* step that differs from the implementation-shaped model only counts as `drift`.                        *)
EXTENDS Storage, IOUtils, Integers
TraceLog == ndJsonDeserialize(IOEnv.TRACE)
VARIABLES l, hid, bad, badread, drift, unf
tvars == <<vars, l, hid, bad, badread, drift, unf>>

ObsMap(m) == [d \in {m[j][1] : j \in 1..Len(m)} |->
                LET j == CHOOSE j \in 1..Len(m) : m[j][1] = d IN [img |-> m[j][2], side |-> m[j][3]]]

TInit == Init /\ l = 1 /\ hid = -1 /\ bad = {} /\ badread = {} /\ drift = {} /\ unf = {}
Ev == TraceLog[l]
IsEv(e) == l <= Len(TraceLog) /\ Ev.e = e /\ l' = l + 1

TReset == /\ IsEv("Reset")
          /\ drives' = <<>> /\ policy' = "PHYSICAL" /\ nimg' = 0 /\ hist' = <<>>
          /\ hid' = Ev.h /\ unf' = {} /\ UNCHANGED <<bad, badread, drift>>

TPolicy == /\ IsEv("policy")
           /\ policy' = Ev.p
           /\ UNCHANGED <<drives, nimg, hist, hid, bad, badread, drift, unf>>

TAttach == /\ IsEv("attach")
           /\ LET new == ObsMap(Ev.map)
                  ok  == Ev.ok /\ RAttach(drives, new, policy, nimg, Ev.k)
                  m   == Extend(drives, Slots(Ev.k), nimg)
              IN /\ drives' = new
                 /\ bad' = IF ok THEN bad ELSE bad \cup {hid}
                 /\ drift' = IF new = m THEN drift ELSE drift \cup {hid}
           /\ nimg' = nimg + 1
           /\ unf' = IF "unf" \in DOMAIN Ev THEN unf \cup {Ev.unf[j] : j \in 1..Len(Ev.unf)} ELSE unf
           /\ UNCHANGED <<policy, hist, hid, badread>>

\* R for addressing: a command addressed to drive d reads exactly the surface attached to d; addressing an
\* empty or unformatted drive fails.
RRead(d, img, side) ==
    IF img >= 0 THEN d \in Dom(drives) /\ drives[d] = [img |-> img, side |-> side]
    ELSE IF img = -1 THEN d \notin Dom(drives) \/ d \in unf
    ELSE FALSE

TRead == /\ IsEv("read")
         /\ badread' = IF RRead(Ev.d, Ev.img, Ev.side) THEN badread ELSE badread \cup {hid}
         /\ UNCHANGED <<vars, hid, bad, drift, unf>>

\* block reads through the cache: data identity must be that of the addressed surface's sector
TBlock == /\ IsEv("block")
          /\ badread' = IF RReadBlock(Ev.d, Ev.sec, IF Ev.img >= 0 THEN [ok |-> TRUE, data |-> [img |-> Ev.img, side |-> Ev.side, sec |-> Ev.got]] ELSE [ok |-> FALSE])
                         THEN badread ELSE badread \cup {hid}
          /\ UNCHANGED <<vars, hid, bad, drift, unf>>
TNext == TReset \/ TPolicy \/ TAttach \/ TRead \/ TBlock
TSpec == TInit /\ [][TNext]_tvars

Final == (l = Len(TraceLog) + 1) => PrintT(<<"VERDICT", ToJson([bad |-> bad, badread |-> badread, drift |-> drift, n |-> Len(TraceLog)])>>)
Accepted == TLCGet("stats").diameter - 1 = Len(TraceLog)
=============================================================================
