--------------------------- MODULE TraceReadStack ---------------------------
(***************************************************************************)
(* Validates the read-stack hook events recorded from real dfs runs        *)
(* against ReadStack.tla: every event is one layer's action, replayed       *)
(* through the spec's own step operators (AfterBody, AfterVol, AfterCache,  *)
(* AfterView, AfterBlk) with the logged values bound, so the position of    *)
(* the read in the stack (layer, cur) is the spec's state, not the trace's. *)
(* An event is rejected when                                                *)
(*   - it is not the action the spec has enabled next (wrong layer, or a    *)
(*     sector number that is not the one the layer above passed down),      *)
(*   - a logged decision differs from the spec's (volume bound, view        *)
(*     arithmetic, cache hit on a sector never filled or with other data),  *)
(*   - a body read leaves its file (RInFile), or                            *)
(*   - the view of an attached drive is not the documented layout of the    *)
(*     container the harness built (ctx event, Layout.tla View), or the     *)
(*     volume a body read goes through is not one the disc's tables define. *)
(* Rejected events are collected (the run is never blocked) and the state   *)
(* resynchronises on the rejected event.  An event of a *kind* the spec     *)
(* does not expect at this layer (the layering of the code changed: a       *)
(* cache removed, a layer added) is not a rejection but model drift: it is  *)
(* counted separately and reported as information, because no property      *)
(* fixes the number of layers; what each layer computes is still judged.    *)
(***************************************************************************)
EXTENDS ReadStack, IOUtils, Integers, Json
TraceLog == ndJsonDeserialize(IOEnv.TRACE)
VARIABLES l, bad, drift,
          ctx,        \* what the harness knows about the image of this run: [kind, cyl, spt, vols]  (kind "none": no container
                      \* layout known; vols: the <<origin, length>> of the volumes the documented on-disc tables define, <<>>: unknown)
          filled,     \* <<dev, sector>> -> sum of the data put into the cache
          pend,       \* the cache miss whose fill is awaited: <<dev, sector>> or <<>>
          lastSum,    \* sum of the data the bottom layer returned last (-1: it failed)
          via,        \* the read in flight came down through the cache (so `pend` names the drive sector it serves)
          content     \* <<group, drive, sector>> -> sum: what the bottom layer delivered for a sector of a surface the harness
                      \* presents in several containers (ctx.group; C05: flux image and sector dump of the same surface)
tvars == <<vars, l, bad, drift, ctx, filled, pend, lastSum, via, content>>
Ev == TraceLog[l]

\* is this the kind of event the layer below the current one emits?
KindExpected(ev) == CASE layer = "vol" -> ev.e = "volread"
                      [] layer = "cache" -> ev.e = "cread"
                      [] layer = "dev" -> ev.e \in {"vread", "fread"}
                      [] layer = "blk" -> ev.e = "blk"
                      [] OTHER -> TRUE                               \* idle: any layer may be entered from outside
\* ... and does it carry the sector number the layer above passed down?
Expected(ev) == CASE layer = "vol" -> ev.lba = cur
                  [] layer = "cache" -> ev.sector = cur
                  [] layer = "dev" -> IF ev.e = "vread" THEN ev.sector = cur ELSE ev.lba = cur
                  [] layer = "blk" -> ev.lba = cur
                  [] OTHER -> TRUE
ViewOf(ev) == [skip |-> ev.skip, take |-> ev.take, leave |-> ev.leave, total |-> ev.total]
KnownViews == IF ctx.kind = "mmb" THEN {View("mmb", 80, 10, h) : h \in 0..510}
              ELSE {View(ctx.kind, ctx.cyl, ctx.spt, h) : h \in (IF ctx.kind = "plain1" THEN {0} ELSE {0, 1})}
\* the sector of the drive this bottom-layer read serves (known while a cache miss is being filled)
ContentKey == <<ctx.group, pend[1], pend[2]>>      \* group, drive (in order of first use), sector
Keyed == ctx.group # "" /\ Len(pend) = 2 /\ via
SameContent(sum) == (Keyed /\ ContentKey \in DOMAIN content) => content[ContentKey] = sum
FieldsOK(ev) ==
    CASE ev.e = "body" -> BodyGuard([start |-> ev.start, last |-> ev.last], ev.sec)
      [] ev.e = "volread" -> /\ (ev.ok = 1) = (ev.lba < ev.len)
                             /\ (Len(ctx.vols) = 0 \/ \E k \in 1..Len(ctx.vols) : ctx.vols[k] = <<ev.origin, ev.len>>)
      [] ev.e = "cread" -> (ev.hit = 1) => (<<ev.dev, ev.sector>> \in DOMAIN filled /\ filled[<<ev.dev, ev.sector>>] = ev.sum)
      [] ev.e = "cfill" -> pend = <<ev.dev, ev.sector>> /\ ev.sum = lastSum
      [] ev.e = "vread" -> /\ ev.pos = (IF MRead(ViewOf(ev), ev.sector) = FAIL THEN 0 - 1 ELSE MRead(ViewOf(ev), ev.sector))
                           /\ (layer = "dev" /\ ctx.kind # "none") => ViewOf(ev) \in KnownViews
      [] ev.e = "blk" -> ev.got <= 256 /\ (ev.got = 256 => SameContent(ev.sum))
      [] ev.e = "fread" -> (ev.found = 1) => (ev.size = 256 /\ ev.spt > 0 /\ ev.cyl = ev.lba \div ev.spt /\ ev.rec = ev.lba % ev.spt
                                              /\ SameContent(ev.sum))
      [] ev.e = "ctx" -> TRUE
      [] OTHER -> FALSE
After(ev) ==
    CASE ev.e = "body" -> AfterBody(ev.sec)
      [] ev.e = "volread" -> AfterVol([origin |-> ev.origin, len |-> ev.len], ev.lba)
      [] ev.e = "cread" -> AfterCache(ev.hit = 1, ev.sector)
      [] ev.e = "vread" -> AfterView(ViewOf(ev), ev.sector)
      [] ev.e = "blk" -> AfterBlk(ev.lba)
      [] OTHER -> Idle(0)
\* a body read in flight never leaves its file or its volume (the spec's StaysInside, evaluated on the replayed state
\* when the next layer's event arrives)
InsideNow == (top.kind = "body" /\ layer \in {"cache", "dev"}) =>
                (cur >= vol.origin /\ cur < vol.origin + vol.len /\ RInFile(file, cur - vol.origin))
TInit == /\ v = [skip |-> 0, take |-> 0, leave |-> 0, total |-> 0] /\ flen = 0 /\ vol = [origin |-> 0, len |-> 0] /\ file = [start |-> 0, last |-> 0]
         /\ cache = <<>> /\ layer = "idle" /\ cur = 0 /\ top = NoTop /\ res = [ok |-> FALSE, pos |-> FAIL]
         /\ l = 1 /\ bad = {} /\ drift = {} /\ ctx = [kind |-> "none", cyl |-> 0, spt |-> 0, vols |-> <<>>, group |-> ""] /\ content = <<>> /\ via = FALSE /\ filled = <<>> /\ pend = <<>> /\ lastSum = 0 - 1
TNext == /\ l <= Len(TraceLog) /\ l' = l + 1
         /\ LET ev == Ev
                known == ev.e \in {"ctx", "cfill"} \/ KindExpected(ev)
                ok == (ev.e \in {"ctx", "cfill"} \/ ~KindExpected(ev) \/ Expected(ev)) /\ FieldsOK(ev) /\ (known => InsideNow)
                n == After(ev) IN
            /\ bad' = IF ok THEN bad ELSE bad \cup {l}
            /\ drift' = IF known THEN drift ELSE drift \cup {l}
            /\ IF ev.e = "cfill" THEN UNCHANGED <<layer, cur>> ELSE (layer' = n.layer /\ cur' = n.cur)
            /\ ctx' = IF ev.e = "ctx" THEN [kind |-> ev.kind, cyl |-> ev.cyl, spt |-> ev.spt, vols |-> ev.vols, group |-> ev.group] ELSE ctx
            /\ filled' = IF ev.e = "ctx" THEN <<>>
                         ELSE IF ev.e = "cfill" THEN [k \in DOMAIN filled \cup {<<ev.dev, ev.sector>>} |-> IF k = <<ev.dev, ev.sector>> THEN ev.sum ELSE filled[k]]
                         ELSE filled
            /\ pend' = IF ev.e = "cread" /\ ev.hit = 0 THEN <<ev.dev, ev.sector>> ELSE IF ev.e \in {"cfill", "ctx", "body"} THEN <<>> ELSE pend
            /\ via' = IF ev.e = "cread" THEN ev.hit = 0
                      ELSE IF ev.e \in {"blk", "fread", "ctx"} \/ (ev.e = "vread" /\ ev.pos < 0) THEN FALSE ELSE via
            /\ lastSum' = IF ev.e = "blk" THEN (IF ev.got = 256 THEN ev.sum ELSE 0 - 1)
                          ELSE IF ev.e = "fread" THEN (IF ev.found = 1 THEN ev.sum ELSE 0 - 1)
                          ELSE IF ev.e = "vread" /\ ev.pos < 0 THEN 0 - 1 ELSE lastSum
            /\ content' = IF Keyed /\ ((ev.e = "blk" /\ ev.got = 256) \/ (ev.e = "fread" /\ ev.found = 1)) /\ ContentKey \notin DOMAIN content
                          THEN [k \in DOMAIN content \cup {ContentKey} |-> IF k = ContentKey THEN ev.sum ELSE content[k]] ELSE content
            /\ file' = IF ev.e = "body" THEN [start |-> ev.start, last |-> ev.last] ELSE file
            /\ vol' = IF ev.e = "volread" THEN [origin |-> ev.origin, len |-> ev.len] ELSE vol
            /\ v' = IF ev.e = "vread" THEN ViewOf(ev) ELSE v
            /\ top' = IF ev.e = "body" THEN [kind |-> "body", sec |-> ev.sec] ELSE IF layer = "idle" THEN NoTop ELSE top
         /\ UNCHANGED <<flen, cache, res>>
TSpec == TInit /\ [][TNext]_tvars
Final == (l = Len(TraceLog) + 1) => PrintT(<<"VERDICT", ToJson([bad |-> bad, drift |-> drift, n |-> Len(TraceLog)])>>)
Accepted == TLCGet("stats").diameter - 1 = Len(TraceLog)
=============================================================================
