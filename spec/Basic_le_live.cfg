SPECIFICATION FairSpec
CONSTANTS MTab <- TabSmall
 MLe = TRUE
 MListo = 7
 Alphabet = {13, 255, 0, 3, 4, 5, 34, 65, 227}
 MaxLen = 4
 Prefixes <- NoAffix
 Suffixes <- NoAffix
INVARIANT MeetsR
PROPERTY Terminates
CHECK_DEADLOCK FALSE
