-------------------------- MODULE TraceStorageHook --------------------------
(***************************************************************************)
(* Validates the storage hook events of real dfs runs against Storage.tla: *)
(*   connect {k, how}      StorageConfiguration::connect_drives begins      *)
(*   attach {drive, dev}   connect_internal: one surface got a drive number *)
(*   select {drive, dev}   select_drive handed out the device of a drive    *)
(*   cread {dev, ...}      a block read reached the cache of device dev     *)
(* A group of k attach events after a connect is one Attach step of the     *)
(* specification: when it is complete the requirement RAttach (injective,   *)
(* append-only, the policy's rule, sides in drive order) is evaluated on    *)
(* the drive map before and after.  A select must return the device that    *)
(* was attached under that number, and a read must go to a device that was  *)
(* selected: the data a command sees is the surface attached as the drive   *)
(* it addressed.                                                            *)
(***************************************************************************)
EXTENDS Storage, IOUtils, Integers
TraceLog == ndJsonDeserialize(IOEnv.TRACE)
VARIABLES l, bad,
          devOf,      \* drive -> device id (-1: attached without a file system)
          group,      \* the connect in progress: [k, how, old, n] or the empty record
          selected    \* devices handed out by select_drive so far
tvars == <<vars, l, bad, devOf, group, selected>>
Ev == TraceLog[l]
NoGroup == [k |-> 0, how |-> "", old |-> <<>>, n |-> 0, set |-> {}]
Ext(f, d, v) == [x \in DOMAIN f \cup {d} |-> IF x = d THEN v ELSE f[x]]
TInit == /\ drives = <<>> /\ policy = "PHYSICAL" /\ nimg = 0 /\ hist = <<>>
         /\ l = 1 /\ bad = {} /\ devOf = <<>> /\ group = NoGroup /\ selected = {}
Step(ev) ==
    CASE ev.e = "ctx" ->          \* a new process
           /\ drives' = <<>> /\ nimg' = 0 /\ devOf' = <<>> /\ group' = NoGroup /\ selected' = {} /\ bad' = bad
      [] ev.e = "connect" ->
           /\ group' = [k |-> ev.k, how |-> ev.how, old |-> drives, n |-> 0, set |-> {}]
           /\ bad' = IF group.n < group.k THEN bad \cup {l} ELSE bad            \* the previous group was left incomplete
           /\ UNCHANGED <<drives, nimg, devOf, selected>>
      [] ev.e = "attach" ->
           \* the surfaces of the image are numbered here by drive order (the hook does not say which surface it is), so what is
           \* judged is the set of numbers the image got: append-only, injective, and the policy's rule
           LET D == group.set \cup {ev.drive}
               rank(d) == Cardinality({e \in D : e < d})
               new == [d \in DOMAIN group.old \cup D |-> IF d \in D THEN [img |-> nimg, side |-> rank(d)] ELSE group.old[d]]
               complete == group.n + 1 = group.k
               ok == /\ group.k > 0 /\ group.n < group.k
                     /\ ev.drive \notin DOMAIN group.old /\ ev.drive \notin group.set
                     /\ complete => RAttach(group.old, new, group.how, nimg, group.k) IN
           /\ drives' = IF complete THEN new ELSE drives
           /\ devOf' = Ext(devOf, ev.drive, ev.dev)
           /\ group' = [group EXCEPT !.n = @ + 1, !.set = D]
           /\ nimg' = IF complete THEN nimg + 1 ELSE nimg
           /\ bad' = IF ok THEN bad ELSE bad \cup {l}
           /\ UNCHANGED selected
      [] ev.e = "select" ->
           /\ bad' = IF ev.drive \in DOMAIN devOf /\ devOf[ev.drive] = ev.dev /\ ev.dev >= 0 THEN bad ELSE bad \cup {l}
           /\ selected' = selected \cup {ev.dev}
           /\ UNCHANGED <<drives, nimg, devOf, group>>
      [] ev.e = "cread" ->
           /\ bad' = IF ev.dev \in selected THEN bad ELSE bad \cup {l}
           /\ UNCHANGED <<drives, nimg, devOf, group, selected>>
      [] OTHER -> UNCHANGED <<drives, nimg, devOf, group, selected, bad>>
TNext == /\ l <= Len(TraceLog) /\ l' = l + 1 /\ Step(Ev) /\ UNCHANGED <<policy, hist>>
TSpec == TInit /\ [][TNext]_tvars
Final == (l = Len(TraceLog) + 1) => PrintT(<<"VERDICT", ToJson([bad |-> bad, n |-> Len(TraceLog)])>>)
Accepted == TLCGet("stats").diameter - 1 = Len(TraceLog)
=============================================================================
