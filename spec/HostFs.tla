------------------------------- MODULE HostFs -------------------------------
(***************************************************************************)
(* Where extract-files creates host files (C12).                           *)
(* A host path is a sequence of character codes; the host tree has the      *)
(* directories  /  /r  /r/sib  /r/d  /r/d/sub ; the destination is /r/d.   *)
(* R: a created file is a direct child of the destination.                  *)
(* M: cmd_extract_files.cc: path = dest + ['/'] + [D '.'] + name; names that *)
(*    contain '/' are refused (repaired); creation succeeds iff the         *)
(*    resolved parent directory exists and the last component is a name.    *)
(***************************************************************************)
EXTENDS Naturals, Sequences, FiniteSets, TLC, Json

CONSTANTS Chars, MaxName, DirChars, CurDir

VARIABLES name, dirc, trailing     \* catalogue name, directory character, whether dest was given with a trailing slash
vars == <<name, dirc, trailing>>

SLASH == 47
DOT == 46
\* component names used for the fixed tree:  r = <<114>>, d = <<100>>, sib = <<115>>, sub = <<117>>
R == <<114>>
D == <<100>>
SIB == <<115>>
SUB == <<117>>
DirsOfTree == { <<>>, <<R>>, <<R, SIB>>, <<R, D>>, <<R, D, SUB>> }
Dest == <<R, D>>
DestStr == <<SLASH, 114, SLASH, 100>>

\* split a path string into components
RECURSIVE Split(_, _, _)
Split(s, i, cur) == IF i > Len(s) THEN <<cur>>
                    ELSE IF s[i] = SLASH THEN <<cur>> \o Split(s, i + 1, <<>>)
                    ELSE Split(s, i + 1, Append(cur, s[i]))
\* POSIX resolution of the directory part (absolute path, no symlinks): "" and "." stay, ".." goes up
RECURSIVE Walk(_, _, _)
Walk(comps, i, at) == IF i > Len(comps) THEN at
                      ELSE IF comps[i] = <<>> \/ comps[i] = <<DOT>> THEN Walk(comps, i + 1, at)
                      ELSE IF comps[i] = <<DOT, DOT>> THEN Walk(comps, i + 1, IF Len(at) = 0 THEN at ELSE SubSeq(at, 1, Len(at) - 1))
                      ELSE Walk(comps, i + 1, Append(at, comps[i]))
\* where a file created at path string p would live: [ok, parent, leaf]
Target(p) == LET comps == Split(p, 1, <<>>)
                 leaf == comps[Len(comps)]
                 parent == Walk(SubSeq(comps, 1, Len(comps) - 1), 1, <<>>)
             IN [ok |-> leaf # <<>> /\ leaf # <<DOT>> /\ leaf # <<DOT, DOT>> /\ parent \in DirsOfTree /\ Append(parent, leaf) \notin DirsOfTree,
                 parent |-> parent, leaf |-> leaf]

(* R *)
RCreatedOK(parent) == parent = Dest

(* M *)
\* CatalogEntry::name(): the 7 name bytes up to the first blank
Eff(nm) == IF \E i \in 1..Len(nm) : nm[i] = 32
           THEN SubSeq(nm, 1, (CHOOSE i \in 1..Len(nm) : nm[i] = 32 /\ \A j \in 1..(i - 1) : nm[j] # 32) - 1)
           ELSE nm
Basename == IF dirc = CurDir THEN Eff(name) ELSE <<dirc, DOT>> \o Eff(name)
HasSlash(s) == \E i \in 1..Len(s) : s[i] = SLASH
MRefused == HasSlash(Basename)                       \* repaired: such names are not extracted
MPath == DestStr \o <<SLASH>> \o Basename            \* "dest/" + basename ("dest//" + .. when dest had a trailing slash resolves the same)
MCreates == ~MRefused /\ Target(MPath).ok

Strings == UNION {[1..k -> Chars] : k \in 1..MaxName}
Init == name \in Strings /\ dirc \in DirChars /\ trailing \in BOOLEAN
Next == UNCHANGED vars
StaysInside == MCreates => RCreatedOK(Target(MPath).parent)
\* what the unrepaired code would do, kept to show the requirement is not vacuous: some name escapes
EscapeExists == \E nm \in Strings : LET t == Target(DestStr \o <<SLASH>> \o nm) IN t.ok /\ t.parent # Dest
\* would this entry leave the destination if its name were appended unchecked?  (used to place such entries at every
\* catalogue position in the replay)
EscapesUnchecked == LET t == Target(DestStr \o <<SLASH>> \o Basename) IN t.ok /\ t.parent # Dest
Emit == PrintT(<<"CASE", ToJson([name |-> name, dirc |-> dirc, trailing |-> trailing, escapes |-> EscapesUnchecked])>>)
=============================================================================
