-------------------------------- MODULE Afsp --------------------------------
(***************************************************************************)
(* DFS ambiguous file specifications (wildcards) and file-name lookup, C15.*)
(* Characters are character codes.                                         *)
(* R: the documented semantics (doc/dfs.1 "DFS WILDCARDS"): RParse, RMatch, *)
(*    RLookup.                                                              *)
(* M: afsp.cc -- the wildcard is completed to :N.D.NAME, every character is *)
(*    turned into one POSIX-ERE element, the qualified file name is matched *)
(*    against it (MTokens/MMatch); fsp.cc + CatalogEntry::has_name for      *)
(*    type/list/dump (MLookup).                                             *)
(***************************************************************************)
EXTENDS Naturals, Sequences, FiniteSets, TLC, Json

CONSTANTS PatChars, MaxPat,         \* wildcard alphabet (codes) and length
          Prefixes,                 \* drive/dir qualifiers put in front of generated wildcards (sequences)
          NameChars, MaxName, FileDirs, FileDrives,    \* catalogued files to match against
          CtxDrive, CtxDirs

VARIABLES pat, cdir
vars == <<pat, cdir>>

DOT == 46
COLON == 58
HASH == 35
STAR == 42
CARET == 94
IsDigit(c) == c >= 48 /\ c <= 57
IsUpper(c) == c >= 65 /\ c <= 90
IsLower(c) == c >= 97 /\ c <= 122
Up(c) == IF IsLower(c) THEN c - 32 ELSE c
CharEq(p, c) == Up(p) = Up(c)          \* letters match case-insensitively, everything else only itself
HasDot(s) == \E i \in 1..Len(s) : s[i] = DOT
Drop(s, n) == SubSeq(s, n + 1, Len(s))

-----------------------------------------------------------------------------
(* R: parsing  [:digits[A-H].] [D.] NAME   ->  [ok, drive, vol, dir, name]  (vol = 0 for none, else letter code) *)
RECURSIVE DigitsEnd(_, _)
DigitsEnd(p, i) == IF i <= Len(p) /\ IsDigit(p[i]) THEN DigitsEnd(p, i + 1) ELSE i      \* first index after the digits
RECURSIVE Num(_, _, _)
Num(p, i, j) == IF i >= j THEN 0 ELSE (p[j - 1] - 48) + 10 * Num(p, i, j - 1)
DrivePrefixLen(p) ==          \* length of a well-formed ":digits[A-H]?." prefix, 0 if there is none
    IF Len(p) >= 3 /\ p[1] = COLON /\ IsDigit(p[2])
    THEN LET j == DigitsEnd(p, 2) IN
         IF j <= Len(p) /\ p[j] = DOT THEN j
         ELSE IF j + 1 <= Len(p) /\ p[j] >= 65 /\ p[j] <= 72 /\ p[j + 1] = DOT THEN j + 1
         ELSE 0
    ELSE 0
RParse(p, cdrive, cd) ==
    LET k == DrivePrefixLen(p)
        j == DigitsEnd(p, 2)
        r == Drop(p, k)
        hasDir == Len(r) >= 2 /\ r[1] # DOT /\ r[2] = DOT
        name == IF hasDir THEN Drop(r, 2) ELSE r
    IN [ok |-> Len(name) > 0 /\ ~HasDot(name),
        drive |-> IF k > 0 THEN Num(p, 2, j) ELSE cdrive,
        vol |-> IF k > 0 /\ p[k - 1] >= 65 /\ p[k - 1] <= 72 /\ ~IsDigit(p[k - 1]) THEN p[k - 1] ELSE 0,
        dir |-> IF hasDir THEN r[1] ELSE cd,
        name |-> name]

RECURSIVE Glob(_, _)
Glob(p, s) ==
    IF Len(p) = 0 THEN Len(s) = 0
    ELSE IF p[1] = STAR THEN Glob(Tail(p), s) \/ (Len(s) > 0 /\ s[1] # DOT /\ Glob(p, Tail(s)))
    ELSE IF p[1] = HASH THEN Len(s) > 0 /\ s[1] # DOT /\ Glob(Tail(p), Tail(s))
    ELSE Len(s) > 0 /\ CharEq(p[1], s[1]) /\ Glob(Tail(p), Tail(s))

\* f: [drive, dir, name] a catalogued file on an Acorn/Watford disc (no volume letter)
RMatch(p, cdrive, cd, f) ==
    LET q == RParse(p, cdrive, cd) IN
    q.ok /\ q.drive = f.drive /\ q.vol = 0 /\ Glob(<<q.dir>>, <<f.dir>>) /\ Glob(q.name, f.name)
RValid(p, cdrive, cd) == RParse(p, cdrive, cd).ok

\* type/list/dump NAME: same qualification, no wildcards, name compared case-insensitively; the statement
\* does not fix whether the directory letter is compared case-sensitively, so RLookup is three-valued
RECURSIVE SeqCharEq(_, _)
SeqCharEq(a, b) == Len(a) = Len(b) /\ \A i \in 1..Len(a) : CharEq(a[i], b[i])
RLookup(p, cdrive, cd, f) ==     \* "yes" / "no" / "either"
    LET q == RParse(p, cdrive, cd) IN
    IF ~(q.ok /\ q.drive = f.drive /\ q.vol = 0 /\ SeqCharEq(q.name, f.name)) THEN "no"
    ELSE IF q.dir = f.dir THEN "yes"
    ELSE IF CharEq(q.dir, f.dir) THEN "either"
    ELSE "no"

\* the catalogue walk behind type/list/dump (Catalog::find_catalog_entry_for_name): a catalogue is a sequence of
\* fragments (Watford: two), each a sequence of entries [dir, name]; the file exists iff some entry of some fragment is it
RFind(frags, qdir, qname) ==      \* "yes" / "no" / "either"
    LET hit(e) == SeqCharEq(e.name, qname) IN
    IF \E i \in 1..Len(frags) : \E j \in 1..Len(frags[i]) : hit(frags[i][j]) /\ frags[i][j].dir = qdir THEN "yes"
    ELSE IF \E i \in 1..Len(frags) : \E j \in 1..Len(frags[i]) : hit(frags[i][j]) /\ CharEq(frags[i][j].dir, qdir) THEN "either"
    ELSE "no"
\* M: every fragment in turn, every entry of it
RECURSIVE MFindFrom(_, _, _, _, _)
MFindFrom(frags, i, j, qdir, qname) ==
    IF i > Len(frags) THEN FALSE
    ELSE IF j > Len(frags[i]) THEN MFindFrom(frags, i + 1, 1, qdir, qname)
    ELSE IF SeqCharEq(frags[i][j].name, qname) /\ Up(frags[i][j].dir) = Up(qdir) THEN TRUE
    ELSE MFindFrom(frags, i, j + 1, qdir, qname)
FindMeetsR == \A a, b \in {<<[dir |-> 36, name |-> <<65>>]>>, <<[dir |-> 65, name |-> <<97>>], [dir |-> 36, name |-> <<49>>]>>, <<>>} :
                \A qd \in {36, 65, 97}, qn \in {<<65>>, <<97>>, <<49>>, <<94>>} :
                   LET r == RFind(<<a, b>>, qd, qn) m == MFindFrom(<<a, b>>, 1, 1, qd, qn) IN
                   (r = "yes" => m) /\ (r = "no" => ~m)

-----------------------------------------------------------------------------
(* M: afsp.cc *)
RECURSIVE NumStr(_)
NumStr(n) == IF n < 10 THEN <<48 + n>> ELSE NumStr(n \div 10) \o <<48 + (n % 10)>>
\* extend_wildcard: missing drive / directory are filled in from the context
MFull(p, cdrive, cd) ==
    LET q == RParse(p, cdrive, cd)
        k == DrivePrefixLen(p)
    IN (IF k > 0 THEN SubSeq(p, 1, k) ELSE <<COLON>> \o NumStr(cdrive) \o <<DOT>>) \o <<q.dir, DOT>> \o q.name
\* one regex element per character: "any" = [^.]  "star" = [^.]*  "set" = bracket / escaped literal
MToken(c) == IF c = HASH THEN [k |-> "any"] ELSE IF c = STAR THEN [k |-> "star"]
             ELSE [k |-> "set", c |-> Up(c)]          \* [xX] for letters, [c] otherwise, \^ for the caret
MTokens(s) == [i \in 1..Len(s) |-> MToken(s[i])]
RECURSIVE TokMatch(_, _)
TokMatch(t, s) ==
    IF Len(t) = 0 THEN Len(s) = 0
    ELSE IF t[1].k = "star" THEN TokMatch(Tail(t), s) \/ (Len(s) > 0 /\ s[1] # DOT /\ TokMatch(t, Tail(s)))
    ELSE IF t[1].k = "any" THEN Len(s) > 0 /\ s[1] # DOT /\ TokMatch(Tail(t), Tail(s))
    ELSE Len(s) > 0 /\ Up(s[1]) = t[1].c /\ TokMatch(Tail(t), Tail(s))
MQualified(f) == <<COLON>> \o NumStr(f.drive) \o <<DOT, f.dir, DOT>> \o f.name
MValid(p, cdrive, cd) == RParse(p, cdrive, cd).ok
MMatch(p, cdrive, cd, f) == MValid(p, cdrive, cd) /\ TokMatch(MTokens(MFull(p, cdrive, cd)), MQualified(f))

-----------------------------------------------------------------------------
Strings(A, n) == UNION {[1..k -> A] : k \in 1..n}
Files == {[drive |-> d, dir |-> dd, name |-> nn] : d \in FileDrives, dd \in FileDirs, nn \in Strings(NameChars, MaxName)}
\* drives with a leading zero (":00.") are outside the domain: the statement does not say what they denote
InDomain(p) == ~(Len(p) >= 3 /\ p[1] = COLON /\ p[2] = 48 /\ IsDigit(p[3]))
Init == /\ pat \in {pre \o body : pre \in Prefixes, body \in Strings(PatChars, MaxPat)}
        /\ InDomain(pat)
        /\ cdir \in CtxDirs
Next == UNCHANGED vars
ModelMeetsR == \A f \in Files : MMatch(pat, CtxDrive, cdir, f) = RMatch(pat, CtxDrive, cdir, f)
\* documented examples (doc/dfs.1): with current directory P, "*" selects P.DONE2 only, "#.*" everything, ...
DocExamples ==
    LET done == [drive |-> 0, dir |-> 80, name |-> <<68, 79, 78, 69, 50>>]      \* P.DONE2
        boot == [drive |-> 0, dir |-> 36, name |-> <<33, 66, 79, 79, 84>>]      \* $.!BOOT
        prog == [drive |-> 0, dir |-> 66, name |-> <<80, 82, 79, 71>>]          \* B.PROG
    IN /\ RMatch(<<STAR>>, 0, 80, done) /\ ~RMatch(<<STAR>>, 0, 80, boot)
       /\ RMatch(<<HASH, DOT, STAR>>, 0, 80, boot) /\ RMatch(<<HASH, DOT, STAR>>, 0, 80, prog)
       /\ RMatch(<<STAR, 50>>, 0, 80, done) /\ RMatch(<<68, HASH, 78, 69, 50>>, 0, 80, done)
       /\ ~RMatch(<<70, STAR>>, 0, 80, done)
       /\ RMatch(<<COLON, 48, DOT, STAR, DOT, STAR>>, 0, 80, prog)
       /\ RMatch(<<COLON, 48, DOT, HASH, DOT, HASH, HASH, HASH, HASH>>, 0, 80, prog)
       /\ ~RMatch(<<COLON, 48, DOT, HASH, DOT, HASH, HASH, HASH, HASH>>, 0, 80, done)
       /\ RMatch(<<100, STAR>>, 0, 80, done)                                     \* case-insensitive
Emit == PrintT(<<"CASE", ToJson([pat |-> pat, cdir |-> cdir])>>)

PrefixesSmall == {<<>>, <<COLON, 48, DOT>>, <<COLON, 49, DOT>>, <<36, DOT>>, <<COLON, 48, DOT, 65, DOT>>, <<COLON, 48, 65, DOT>>}
=============================================================================
