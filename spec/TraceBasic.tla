------------------------------ MODULE TraceBasic ------------------------------
(* Judges runs of the real bbcbasic_to_text against RProgram (Basic.tla) with the dialect tables of            *)
(* BasicTokens.tla (generated from the repository's golden token map).                                         *)
EXTENDS Basic, BasicTokens, IOUtils, Integers
TraceLog == ndJsonDeserialize(IOEnv.TRACE)
VARIABLES l, bad
tvars == <<vars, l, bad>>
Ev == TraceLog[l]
LittleEndian(d) == d \in {"Z80", "8086", "Windows", "SDL", "MacOSX"}
RECURSIVE Concat(_)
Concat(ss) == IF Len(ss) = 0 THEN <<>> ELSE Head(ss) \o Concat(Tail(ss))
SeqMax(s) == IF \E i \in 1..Len(s) : s[i] # 0 THEN 1 ELSE 0

\* one input, one run
RunOK(ev) == RObsOK(TabOf(ev.dialect), LittleEndian(ev.dialect), ev.listo, ev.inp, ev.rc, ev.out, ev.errempty = 1)
\* file and standard input give the same listing
SameOK(ev) == ev.out = ev.out2 /\ ev.rc = ev.rc2
\* C09: what a truncated file printed is a prefix of what the intact file prints, and it is rejected
PrefixOK(ev) == IsPrefix(ev.out_cut, ev.out_full) /\ ev.rc_cut = 1 /\ ev.errempty = 0
\* C09: with several input files each file's listing depends only on that file
MultiOK(ev) == ev.out = Concat(ev.outs) /\ ev.rc = SeqMax(ev.rcs)
\* C08: outcome alphabet only
CleanOK(ev) == ev.clean = 1 /\ ev.rc \in {0, 1} /\ (ev.rc = 1 => ev.errempty = 0)
Judge(ev) == CASE ev.e = "run" -> RunOK(ev) /\ CleanOK(ev)
               [] ev.e = "same" -> SameOK(ev)
               [] ev.e = "prefix" -> PrefixOK(ev)
               [] ev.e = "multi" -> MultiOK(ev)
               [] ev.e = "clean" -> CleanOK(ev)
               [] OTHER -> FALSE
TInit == inp = <<>> /\ pos = 1 /\ out = <<>> /\ indent = 0 /\ st = "run" /\ buf = <<>> /\ l = 1 /\ bad = {}
TNext == /\ l <= Len(TraceLog) /\ l' = l + 1
         /\ bad' = IF Judge(Ev) THEN bad ELSE bad \cup {l}
         /\ UNCHANGED vars
TSpec == TInit /\ [][TNext]_tvars
Final == (l = Len(TraceLog) + 1) => PrintT(<<"VERDICT", ToJson([bad |-> bad, n |-> Len(TraceLog)])>>)
Accepted == TLCGet("stats").diameter - 1 = Len(TraceLog)
=============================================================================
