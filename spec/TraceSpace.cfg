SPECIFICATION TSpec
CONSTANTS T = 9
 NFrag = 1
 MaxFiles = 1
 MaxLen = 1
 CatSecs = 2
 FreeBase = 2
INVARIANT Final
POSTCONDITION Accepted
CHECK_DEADLOCK FALSE
