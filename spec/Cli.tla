--------------------------------- MODULE Cli ---------------------------------
(***************************************************************************)
(* The dfs command line (C07, C16, C18): main()'s option loop and command   *)
(* dispatch as a step machine over abstract option tokens.                  *)
(* R: the process ends by returning 0, 1 or 2; a non-zero status comes with  *)
(*    a diagnostic; --verbose / --show-config never influence the outcome   *)
(*    (C18: the outcome is a function of the other tokens).                 *)
(* M: getopt_long loop: each token either updates the context, attaches an  *)
(*    image, or ends the program with a diagnostic.                         *)
(***************************************************************************)
EXTENDS Naturals, Sequences, FiniteSets, TLC, Json
CONSTANTS MaxOpts, OptTokens, Commands

VARIABLES opts, cmd, i, st, exit, diag, attached, verbose, showcfg
vars == <<opts, cmd, i, st, exit, diag, attached, verbose, showcfg>>

\* tokens after which main() returns at once with status 1 and a message
Fatal == {"file-missing", "file-noext", "file-badext", "file-noarg", "file-garbage", "dir-long", "dir-empty", "drive-bad", "drive-neg",
          "drive-huge", "drive-junk", "ui-bad", "unknown", "ambiguous"}
Neutral == {"verbose", "show-config"}                         \* C18: diagnostic options
Init == /\ opts \in UNION {[1..k -> OptTokens] : k \in 0..MaxOpts}
        /\ cmd \in Commands
        /\ i = 1 /\ st = "options" /\ exit = 99 /\ diag = FALSE /\ attached = 0 /\ verbose = FALSE /\ showcfg = FALSE
Done(e, d) == st' = "done" /\ exit' = e /\ diag' = d /\ UNCHANGED <<opts, cmd, i, attached, verbose, showcfg>>
Option ==
    /\ st = "options" /\ i <= Len(opts)
    /\ LET t == opts[i] IN
       IF t \in Fatal THEN Done(1, TRUE)
       ELSE IF t = "help" THEN Done(0, FALSE)
       ELSE /\ i' = i + 1
            /\ attached' = IF t = "file-ok" THEN attached + 1 ELSE attached
            /\ verbose' = (verbose \/ t = "verbose")
            /\ showcfg' = (showcfg \/ t = "show-config")
            /\ UNCHANGED <<opts, cmd, st, exit, diag>>
\* the commands' own argument checks and their need for a mounted drive
NeedsDrive(c) == c \in {"cat", "info-all", "free", "type-file", "sector-map", "dump-sector-ok"}
CmdFails(c) == c \in {"none", "nosuch", "info-noarg", "info-badpat", "type-noarg", "type-missing", "dump-sector-args", "dump-sector-range", "dump-sector-overflow", "dump-sector-negoverflow", "cat-overflow", "free-overflow",
                      "cat-junk", "free-junk", "extract-noarg", "extract-emptydest", "extract-nodir", "help-nosuch", "cat-nodrive"}
Command ==
    /\ st = "options" /\ i > Len(opts)
    /\ IF CmdFails(cmd) THEN Done(1, TRUE)
       ELSE IF NeedsDrive(cmd) /\ attached = 0 THEN Done(1, TRUE)
       ELSE Done(0, FALSE)
Next == Option \/ Command
Spec == Init /\ [][Next]_vars

ROutcomeOK(e, d) == e \in {0, 1, 2} /\ (e # 0 => d)
ExitAlphabet == st = "done" => ROutcomeOK(exit, diag)
\* C18 at spec level: dropping the diagnostic options from the command line gives the same outcome
Strip(s) == SelectSeq(s, LAMBDA t : t \notin Neutral)
Outcome(os, c) ==       \* closed form of the machine above
    LET firstEnd == IF \E k \in 1..Len(os) : os[k] \in Fatal \cup {"help"}
                    THEN CHOOSE k \in 1..Len(os) : os[k] \in Fatal \cup {"help"} /\ \A j \in 1..(k - 1) : os[j] \notin Fatal \cup {"help"}
                    ELSE 0
        nfiles == Cardinality({k \in 1..Len(os) : os[k] = "file-ok"})
    IN IF firstEnd # 0 THEN (IF os[firstEnd] = "help" THEN 0 ELSE 1)
       ELSE IF CmdFails(c) \/ (NeedsDrive(c) /\ nfiles = 0) THEN 1 ELSE 0
DiagnosticsNonInterfering == st = "done" => (exit = Outcome(opts, cmd) /\ Outcome(Strip(opts), cmd) = Outcome(opts, cmd))
Emit == st = "done" => PrintT(<<"CASE", ToJson([opts |-> opts, cmd |-> cmd, exit |-> exit])>>)
=============================================================================
