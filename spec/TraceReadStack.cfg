SPECIFICATION TSpec
CONSTANTS
 Views <- ViewsSmall
 Vols <- VolsSmall
 Files <- FilesSmall
 FileLens = {4}
 CacheSize = 4
 MaxSector = 8
INVARIANT Final
POSTCONDITION Accepted
CHECK_DEADLOCK FALSE
