INIT Init
NEXT Next
CONSTANTS Alphabet = {13, 10, 32, 65, 0, 127, 128, 255}
 MaxLen = 3
INVARIANT TypeKeepsLength
INVARIANT ListLineCount
INVARIANT DumpRowsCover
INVARIANT Emit
CHECK_DEADLOCK FALSE
