SPECIFICATION Spec
CONSTANTS MaxFrags = 2
 MaxPerFrag = 3
 Classes = {"in", "out", "nil"}
INVARIANT Inside
INVARIANT Complete
INVARIANT Emit
CHECK_DEADLOCK FALSE
