------------------------------- MODULE TraceCli -------------------------------
(* Judges the outcome of real dfs runs on hostile files and command lines against the outcome alphabet of      *)
(* Cli.tla (ROutcomeOK) and the cleanliness requirements of C07.                                               *)
EXTENDS Cli, IOUtils, Integers
TraceLog == ndJsonDeserialize(IOEnv.TRACE)
VARIABLES l, bad
tvars == <<vars, l, bad>>
Ev == TraceLog[l]
RunOK(ev) == /\ ev.timed_out = 0 /\ ev.signal = 0 /\ ev.san = 0
             /\ ROutcomeOK(ev.rc, ev.errempty = 0)
\* allocation in proportion to the file: 256 MiB is far above what any supported image needs
MemOK(ev) == ev.rss_kb <= 262144
Judge(ev) == CASE ev.e = "run" -> RunOK(ev) [] ev.e = "mem" -> MemOK(ev) [] OTHER -> FALSE
TInit == /\ opts = <<>> /\ cmd = "none" /\ i = 1 /\ st = "done" /\ exit = 0 /\ diag = FALSE /\ attached = 0 /\ verbose = FALSE /\ showcfg = FALSE
         /\ l = 1 /\ bad = {}
TNext == /\ l <= Len(TraceLog) /\ l' = l + 1
         /\ bad' = IF Judge(Ev) THEN bad ELSE bad \cup {l}
         /\ UNCHANGED vars
TSpec == TInit /\ [][TNext]_tvars
Final == (l = Len(TraceLog) + 1) => PrintT(<<"VERDICT", ToJson([bad |-> bad, n |-> Len(TraceLog)])>>)
Accepted == TLCGet("stats").diameter - 1 = Len(TraceLog)
=============================================================================
