SPECIFICATION Spec
CONSTANTS
 Views <- ViewsSmall
 Vols <- VolsSmall
 Files <- FilesSmall
 FileLens = {4, 9, 14}
 CacheSize = 2
 MaxSector = 8
INVARIANT ResultMeetsR
INVARIANT RawMeetsR
INVARIANT StaysInside
INVARIANT CacheIsFaithful
INVARIANT TypeOK
CHECK_DEADLOCK FALSE
