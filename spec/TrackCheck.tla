----------------------------- MODULE TrackCheck -----------------------------
(***************************************************************************)
(* Which decoded tracks a flux image (HFE, HxC MFM) is accepted with, and   *)
(* what a block read of an accepted image can return (C07: reads copy the   *)
(* decoded sector into a fixed 256-byte buffer; C04/C05: the sector read is  *)
(* the one addressed).                                                      *)
(* A decoded track is the list of its CRC-valid sectors sorted by address   *)
(* (cylinder, head, record); each carries the size its ID field declares.   *)
(* M: check_track_is_supported() (dfs/track.cc) and the all-tracks-equal    *)
(*    rule of HfeFile::read_all_sectors / HxCMFMFile; read_block by address. *)
(* R: an accepted image has only 256-byte sectors, each on its own track    *)
(*    and side, record numbers without duplicate or gap; a read returns      *)
(*    exactly 256 bytes of the addressed sector or fails.                    *)
(***************************************************************************)
EXTENDS Naturals, Sequences, FiniteSets, TLC, Json
CONSTANTS MaxSectors, Cyls, Heads, Recs, Sizes,
          TrackNo, SideNo,      \* where the track under test sits
          RefCount              \* sectors on every other track of the image
VARIABLES secs
vars == <<secs>>
Sec == [cyl : Cyls, head : Heads, rec : Recs, size : Sizes]
Less(a, b) == \/ a.cyl < b.cyl
              \/ a.cyl = b.cyl /\ a.head < b.head
              \/ a.cyl = b.cyl /\ a.head = b.head /\ a.rec <= b.rec
Sorted(s) == \A k \in 1..(Len(s) - 1) : Less(s[k], s[k + 1])
\* every sorted list, built one sector at a time (the decoder's result after sorting)
Init == secs = <<>>
Next == \E x \in Sec : /\ Len(secs) < MaxSectors
                       /\ (IF Len(secs) = 0 THEN TRUE ELSE Less(secs[Len(secs)], x))
                       /\ secs' = Append(secs, x)

(* M *)
MSectorOK(s, k) == /\ s[k].head = SideNo
                   /\ s[k].cyl = TrackNo
                   /\ (k > 1 => s[k - 1].rec # s[k].rec /\ ~(s[k - 1].rec + 1 < s[k].rec))
                   /\ s[k].size = 256
MTrackOK(s) == \A k \in 1..Len(s) : MSectorOK(s, k)
MImageOK(s) == Len(s) = RefCount /\ MTrackOK(s)
\* read_block(lba) of the side: the first sector with the wanted address, copied whole into the buffer
MRead(s, rec) == LET hits == {k \in 1..Len(s) : s[k].cyl = TrackNo /\ s[k].head = SideNo /\ s[k].rec = rec}
                 IN IF hits = {} THEN [ok |-> FALSE, copied |-> 0]
                    ELSE [ok |-> TRUE, copied |-> s[CHOOSE k \in hits : \A j \in hits : k <= j].size]

(* R *)
RTrack(s) == /\ \A k \in 1..Len(s) : s[k].size = 256 /\ s[k].head = SideNo /\ s[k].cyl = TrackNo
             /\ \A k \in 1..(Len(s) - 1) : s[k + 1].rec = s[k].rec + 1
RReadFits(res) == res.ok => res.copied = 256

AcceptedIsSafe == MImageOK(secs) => RTrack(secs)
ReadsFit == MImageOK(secs) => \A r \in Recs : RReadFits(MRead(secs, r))
Emit == PrintT(<<"CASE", ToJson([secs |-> secs, accept |-> MImageOK(secs)])>>)
=============================================================================
