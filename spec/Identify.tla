------------------------------ MODULE Identify ------------------------------
(***************************************************************************)
(* File-system identification from on-disc markers and geometry choice, C13 *)
(* (identify.cc).  A disc is abstracted to the markers the statement names. *)
(* R: RVariant (marker definition), RGeomOK (large enough).                 *)
(* M: probe_format's sequence HDFS -> Watford -> Opus -> Acorn with each     *)
(*    test as coded; probe_geometry's filters and min_element preference.   *)
(***************************************************************************)
EXTENDS Naturals, Sequences, FiniteSets, TLC, Json

CONSTANTS StartClasses,     \* start sectors of a catalogued file: 0 = no file, else the sector
          Totals,           \* catalogue total-sector field values to probe geometry with
          Exts              \* image name extensions

VARIABLES d, ext
vars == <<d, ext>>

\* the markers
Disc == [hdfs : BOOLEAN,          \* sector 1 byte 6 bit 3
         aa2 : BOOLEAN,           \* sector 2 begins with eight 0xAA bytes
         start : StartClasses,    \* a catalogued file's 10-bit start sector (0: no file)
         flen0 : BOOLEAN,         \* that file's length is zero (it still "starts there")
         spt18 : BOOLEAN,         \* sector 16 byte 3 = 18
         totok : BOOLEAN,         \* sector 16 total in {630, 720, 1440}
         vols : {"none", "valid", "valid1", "invalid", "invalid-mid"},   \* volumes listed in sector 16 and their catalogues
                                  \* (valid1: all valid, one of them of the minimum size, a single track; invalid-mid: a volume
                                  \* with an invalid catalogue followed, in track order, by one with a valid catalogue)
         lastok : BOOLEAN,        \* the last sector the Opus table promises is present in the image
         cat0 : BOOLEAN,          \* sectors 0/1 hold a valid catalogue
         total : Totals]

-----------------------------------------------------------------------------
(* R *)
ROpusTable(x) == x.spt18 /\ x.totok /\ x.vols \in {"valid", "valid1"} /\ x.lastok
RVariant(x) == IF x.hdfs THEN "HDFS"
               ELSE IF x.aa2 /\ x.start # 2 THEN "WDFS"
               ELSE IF ROpusTable(x) THEN "OPUS"
               ELSE IF x.cat0 THEN "DFS"
               ELSE "NONE"

(* M: probe_format *)
MWatford(x) == /\ ~(x.start # 0 /\ x.start = 2)       \* 10-bit comparison (repaired; was: low byte only)
               /\ x.aa2
MOpus(x) == /\ x.spt18
            /\ x.vols \notin {"invalid", "invalid-mid"}        \* OpusDiscCatalogue construction + every listed catalogue valid
            /\ x.vols # "none"           \* zero volumes rejected
            /\ x.lastok
            /\ x.totok
MProbe(x) == IF x.hdfs THEN "HDFS"
             ELSE IF MWatford(x) THEN "WDFS"
             ELSE IF MOpus(x) THEN "OPUS"
             ELSE IF x.cat0 THEN "DFS"       \* smells_like_acorn_dfs: not hdfs, not watford, not opus, valid catalogue
             ELSE "NONE"

-----------------------------------------------------------------------------
(* geometry: make_candidate_list + probe_geometry *)
EncOpts(e)  == IF e \in {"ssd", "dsd"} THEN <<"FM">> ELSE IF e \in {"sdd", "ddd"} THEN <<"MFM">> ELSE <<"FM", "MFM">>
SideOpts(e) == IF e \in {"dsd", "ddd"} THEN <<2>> ELSE <<2, 1>>
IlOpts(e)   == IF e \in {"ssd", "sdd"} THEN <<FALSE>> ELSE IF e \in {"dsd", "ddd"} THEN <<TRUE>> ELSE <<FALSE, TRUE>>
SptOpts(enc) == IF enc = "FM" THEN <<10>> ELSE <<18, 16>>
Tracks == <<40, 80, 35>>
RECURSIVE Flatten(_)
Flatten(ss) == IF Len(ss) = 0 THEN <<>> ELSE Head(ss) \o Flatten(Tail(ss))
Map(s, F(_)) == [i \in 1..Len(s) |-> F(s[i])]
Cands(e) ==
  Flatten(Map(EncOpts(e), LAMBDA enc :
   Flatten(Map(SideOpts(e), LAMBDA sides :
    Flatten(Map(Tracks, LAMBDA tr :
     Flatten(Map(SptOpts(enc), LAMBDA spt :
      Map(IlOpts(e), LAMBDA il : [enc |-> enc, heads |-> sides, cyl |-> tr, spt |-> spt, il |-> il])))))))))
Filter(s, P(_)) == SelectSeq(s, P)
Tot(c) == c.cyl * c.heads * c.spt
Less(a, b) == IF a.spt = 16 /\ b.spt # 16 THEN FALSE ELSE IF b.spt = 16 /\ a.spt # 16 THEN TRUE ELSE Tot(a) < Tot(b)
MinElem(s) == LET F[i \in 1..Len(s)] == IF i = 1 THEN s[1] ELSE IF Less(s[i], F[i - 1]) THEN s[i] ELSE F[i - 1] IN F[Len(s)]
\* otherCat: set of sector numbers at which a second valid catalogue is found (for two-sided candidates)
MGeom(e, total, otherCat) ==
    LET p1 == Filter(Cands(e), LAMBDA c : c.cyl * c.spt >= total)
        p2 == IF Len(p1) > 1 THEN Filter(p1, LAMBDA c : c.heads = 1 \/ (c.spt * (IF c.il THEN 1 ELSE c.cyl)) \in otherCat) ELSE p1
    IN IF Len(p2) = 0 THEN [ok |-> FALSE, cyl |-> 0, spt |-> 0] ELSE [ok |-> TRUE, cyl |-> MinElem(p2).cyl, spt |-> MinElem(p2).spt]
RGeomOK(g, total) == g.ok => g.cyl * g.spt >= total

-----------------------------------------------------------------------------
Init == d \in Disc /\ ext \in Exts
Next == UNCHANGED vars
ProbeMeetsR == MProbe(d) = RVariant(d)
GeomLargeEnough == \A oc \in {{}, {400}, {800}, {10}, {18}, {720}, {1440}} : RGeomOK(MGeom(ext, d.total, oc), d.total)
\* the statement's example: a file starting in sector 2 that begins with the recognition bytes does not make a Watford disc
AAFileIsNotWatford == (d.aa2 /\ d.start = 2 /\ ~d.hdfs) => RVariant(d) # "WDFS"
Emit == PrintT(<<"CASE", ToJson([d |-> d, ext |-> ext])>>)
=============================================================================
