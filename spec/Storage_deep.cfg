SPECIFICATION Spec
CONSTANTS MaxImages = 5
 MaxDrive = 80
 Kinds = {1,2,3,5}
INVARIANT Injective
PROPERTY AppendOnly
PROPERTY AttachMeetsR
PROPERTY TwoSidedPhysical
CONSTRAINT Bound
CONSTRAINT NoDoubleSwitch
CHECK_DEADLOCK FALSE
