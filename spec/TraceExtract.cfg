SPECIFICATION TSpec
CONSTANTS MaxFrags = 2
 MaxPerFrag = 3
 Classes = {"in", "out", "nil"}
INVARIANT Final
POSTCONDITION Accepted
CHECK_DEADLOCK FALSE
