INIT Init
NEXT Next
CONSTANTS StartClasses = {0, 2, 258, 514, 770, 5}
 Totals = {1023, 900, 5}
 Exts = {"sdd"}
INVARIANT ProbeMeetsR
INVARIANT GeomLargeEnough
INVARIANT AAFileIsNotWatford
INVARIANT Emit
CHECK_DEADLOCK FALSE
