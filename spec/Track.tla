-------------------------------- MODULE Track --------------------------------
(***************************************************************************)
(* FM / MFM track decoding at item level (C06; C05 for the fault-free case).*)
(* A recorded track is the sequence  ID(1) DATA(1) ID(2) DATA(2) ...        *)
(* (items 1..2*NSec); each item has a fault:                                *)
(*   "ok"      intact                                                       *)
(*   "crc"     body or CRC bits damaged (flip / slip inside the field)      *)
(*   "nomark"  address mark / sync destroyed: the field cannot be recognised *)
(*   "deleted" (data items) recorded with the deleted-data mark             *)
(* and the track may be truncated after item `cut` (all later items absent) *)
(* or inside item cut+1 (`partial`).                                        *)
(*                                                                         *)
(* R: every yielded sector pairs an address with the payload recorded under *)
(*    it, both fields intact (NoMisaddress, OnlyGood); a fault-free track   *)
(*    yields every sector (RoundTrip).                                      *)
(* M: the two-state decoders of track_fm.cc / track_mfm.cc: after an ID     *)
(*    with good CRC the data mark must follow within the ID-to-data         *)
(*    distance bound (repaired), i.e. it can only be the adjacent item.     *)
(***************************************************************************)
EXTENDS Naturals, Sequences, FiniteSets, TLC, Json
CONSTANTS NSec, Enc, Faults        \* Enc \in {"FM","MFM"}; Faults: fault kinds explored

VARIABLES faults, cut, partial, pos, st, cur, yielded
vars == <<faults, cut, partial, pos, st, cur, yielded>>
N == 2 * NSec
IsId(i) == i % 2 = 1
Rec(i) == (i + 1) \div 2
FaultsOf(i) == IF IsId(i) THEN Faults \ {"deleted"} ELSE Faults
Init == /\ faults \in {f \in [1..N -> Faults] : \A i \in 1..N : f[i] \in FaultsOf(i)}
        /\ cut \in 0..N /\ partial \in BOOLEAN
        /\ pos = 1 /\ st = "LookId" /\ cur = 0 /\ yielded = <<>>
Present(i) == i <= cut                                \* wholly on the track
Begun(i) == i <= cut \/ (partial /\ i = cut + 1)      \* its mark is on the track
Recognisable(i) == Begun(i) /\ faults[i] # "nomark"
NextWhere(p, P(_)) == IF \E i \in p..N : P(i) THEN CHOOSE i \in p..N : P(i) /\ \A j \in p..(i - 1) : ~P(j) ELSE 0

Yield(i) == Append(yielded, [addr |-> cur, payload |-> Rec(i)])
\* reading a recognised field: complete and intact?
Reads(i) == Present(i) /\ faults[i] \in {"ok", "deleted"}

LookId ==
    /\ st = "LookId"
    /\ LET i == IF Enc = "FM" THEN NextWhere(pos, LAMBDA k : IsId(k) /\ Recognisable(k))        \* FM scans for the ID mark pattern
                ELSE NextWhere(pos, LAMBDA k : Recognisable(k))                                 \* MFM: any sync
       IN IF i = 0 THEN st' = "Done" /\ UNCHANGED <<pos, cur, yielded>>
          ELSE /\ pos' = i + 1
               /\ IF IsId(i) /\ Reads(i) THEN st' = "LookData" /\ cur' = Rec(i) ELSE st' = "LookId" /\ cur' = cur
               /\ UNCHANGED yielded
    /\ UNCHANGED <<faults, cut, partial>>
LookData ==
    /\ st = "LookData"
    /\ IF pos <= N /\ ~IsId(pos) /\ Recognisable(pos)          \* a data mark within the distance bound: the adjacent field
       THEN /\ yielded' = IF Reads(pos) /\ faults[pos] = "ok" THEN Yield(pos) ELSE yielded
            /\ pos' = pos + 1
       ELSE UNCHANGED <<yielded, pos>>                         \* nothing in range: forget the address, rescan from here
    /\ st' = "LookId" /\ UNCHANGED <<cur, faults, cut, partial>>
Next == LookId \/ LookData
Spec == Init /\ [][Next]_vars

\* R, as operators over a list of yields so that TraceTrack can reuse them
RNoMisaddress(ys) == \A k \in 1..Len(ys) : ys[k].addr = ys[k].payload
ROnlyGood(ys, f, c) == \A k \in 1..Len(ys) : LET r == ys[k].addr IN
                         r \in 1..NSec /\ 2 * r <= c /\ f[2 * r - 1] = "ok" /\ f[2 * r] = "ok"
RNoDuplicates(ys) == \A j, k \in 1..Len(ys) : j # k => ys[j].addr # ys[k].addr
RRoundTrip(ys, f, c) == ((\A i \in 1..N : f[i] = "ok") /\ c = N) => ys = [k \in 1..NSec |-> [addr |-> k, payload |-> k]]

NoMisaddress == RNoMisaddress(yielded)
OnlyGood == ROnlyGood(yielded, faults, cut)
RoundTrip == st = "Done" => RRoundTrip(yielded, faults, cut)
\* not required by the statement, but a useful design fact: an intact sector right after any damage is still found
IntactFound == st = "Done" => \A r \in 1..NSec : (2 * r <= cut /\ faults[2 * r - 1] = "ok" /\ faults[2 * r] = "ok") =>
                                  \E k \in 1..Len(yielded) : yielded[k].addr = r
Emit == st = "Done" => PrintT(<<"CASE", ToJson([faults |-> faults, cut |-> cut, partial |-> partial])>>)
=============================================================================
