SPECIFICATION Spec
CONSTANTS NSec = 3
 Enc = "FM"
 Faults = {"ok", "crc", "nomark", "deleted"}
INVARIANT NoMisaddress
INVARIANT OnlyGood
INVARIANT RoundTrip
INVARIANT IntactFound
INVARIANT Emit
CHECK_DEADLOCK FALSE
