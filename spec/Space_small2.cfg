INIT Init
NEXT Next
CONSTANTS T = 11
 NFrag = 2
 MaxFiles = 3
 MaxLen = 2
 CatSecs = 4
 FreeBase = 4
INVARIANT SpaceAgrees
INVARIANT MapAgrees
INVARIANT UnusedAgrees
INVARIANT FreeAgrees
INVARIANT CrossAgree
INVARIANT Emit
CHECK_DEADLOCK FALSE
