------------------------------ MODULE OutStream ------------------------------
(***************************************************************************)
(* Exit status versus completeness of the output (C11).                    *)
(* A command produces N chunks into a buffered stream of capacity Cap; the *)
(* device accepts bytes until `failAt` bytes have been accepted, then      *)
(* refuses (ENOSPC/EFBIG/EPIPE-like).  A refused flush makes the stream    *)
(* `bad` (sticky) and drops the data.  After the command, the program      *)
(* follows one of the check profiles:                                      *)
(*   "none"        returns success without looking            (old main)   *)
(*   "good"        tests the stream state, without flushing   (old type,   *)
(*                 space, sector-map, show-titles, help)                   *)
(*   "flush+test"  flushes, then tests, reports, exits non-zero (repaired   *)
(*                 main(); bbcbasic_to_text)                               *)
(*   "c:flush"     C stdio (bbcbasic_to_text as found): most writes are     *)
(*                 tested where they are made and stop the listing, those  *)
(*                 in `unchecked` are not; at the end only fflush's own     *)
(*                 result is looked at.  A failed stdio write discards the  *)
(*                 buffer and sets the error indicator but later writes are *)
(*                 still attempted.                                         *)
(*   "c:checked"   the same with no unchecked write (repaired lines.c)      *)
(* R: exit = 0 => everything produced was accepted; a failure is reported.  *)
(***************************************************************************)
EXTENDS Naturals, Sequences, FiniteSets, TLC, Json
CONSTANTS MaxChunks, ChunkSizes, Caps, Profiles

VARIABLES chunks, cap, failAt, profile,     \* the case
          unchecked,                        \* C profiles: indices of chunks written without testing the result
          bounds,                           \* C profiles: indices of the chunks that end an input file's listing
          i, buf, accepted, bad, exit, diag, st
vars == <<chunks, cap, failAt, profile, unchecked, bounds, i, buf, accepted, bad, exit, diag, st>>
IsC == profile \in {"c:flush", "c:checked"}
Sum(s) == LET F[n \in 0..Len(s)] == IF n = 0 THEN 0 ELSE F[n - 1] + s[n] IN F[Len(s)]
Init == /\ chunks \in UNION {[1..k -> ChunkSizes] : k \in 0..MaxChunks}
        /\ cap \in Caps /\ failAt \in 0..(Sum(chunks) + 1) /\ profile \in Profiles
        /\ unchecked \in IF profile = "c:flush" THEN SUBSET (1..Len(chunks)) ELSE {{}}
        /\ bounds \in IF profile \in {"c:flush", "c:checked"} THEN {B \cup {Len(chunks)} : B \in SUBSET (1..Len(chunks))} ELSE {{}}
        /\ i = 1 /\ buf = 0 /\ accepted = 0 /\ bad = FALSE /\ exit = 99 /\ diag = FALSE /\ st = "writing"
\* the device takes all of n bytes or (at the limit) only part and then fails
Flush(n) == IF accepted + n <= failAt THEN [acc |-> accepted + n, ok |-> TRUE]
            ELSE [acc |-> failAt, ok |-> FALSE]
\* C stdio: the full buffer is written out first and the new data then buffered; on failure both are lost, the
\* error indicator is set, and a tested call abandons the current input file with a diagnostic; the failure is
\* remembered (exit status 1) and the next input file is listed
NextFile(k) == (CHOOSE b \in bounds : b >= k /\ \A c \in bounds : c >= k => b <= c) + 1
\* (a chunk of size 0 stands for an fflush() call in the middle of the output: it writes the buffer out whatever its fill)
CPut == /\ st = "writing" /\ i <= Len(chunks) /\ IsC
        /\ IF buf + chunks[i] > cap \/ (chunks[i] = 0 /\ buf > 0)
           THEN LET f == Flush(buf) IN
                /\ accepted' = f.acc
                /\ IF f.ok THEN buf' = chunks[i] /\ UNCHANGED <<bad, exit, diag, st>> /\ i' = i + 1
                   ELSE /\ buf' = 0 /\ bad' = TRUE /\ UNCHANGED st
                        /\ IF i \in unchecked THEN i' = i + 1 /\ UNCHANGED <<exit, diag>>
                           ELSE i' = NextFile(i) /\ exit' = 1 /\ diag' = TRUE
           ELSE buf' = buf + chunks[i] /\ i' = i + 1 /\ UNCHANGED <<accepted, bad, exit, diag, st>>
        /\ UNCHANGED <<chunks, cap, failAt, profile, unchecked, bounds>>
\* main(): fflush(stdout) and only its own result
CFinish == /\ st = "writing" /\ i > Len(chunks) /\ IsC
           /\ LET f == Flush(buf) IN
              /\ accepted' = f.acc /\ buf' = 0 /\ bad' = (bad \/ ~f.ok)
              /\ exit' = (IF f.ok /\ exit = 99 THEN 0 ELSE 1)
              /\ diag' = (diag \/ ~f.ok)
           /\ st' = "exiting" /\ UNCHANGED <<chunks, cap, failAt, profile, unchecked, bounds, i>>
Put == /\ st = "writing" /\ i <= Len(chunks) /\ ~IsC
       /\ IF bad THEN UNCHANGED <<buf, accepted, bad>>                   \* writes to a bad stream are dropped
          ELSE IF buf + chunks[i] > cap
          THEN LET f == Flush(buf + chunks[i]) IN accepted' = f.acc /\ bad' = ~f.ok /\ buf' = 0
          ELSE buf' = buf + chunks[i] /\ UNCHANGED <<accepted, bad>>
       /\ i' = i + 1 /\ UNCHANGED <<chunks, cap, failAt, profile, unchecked, bounds, exit, diag, st>>
Finish == /\ st = "writing" /\ i > Len(chunks) /\ ~IsC
          /\ IF profile = "none" THEN exit' = 0 /\ diag' = FALSE /\ UNCHANGED <<buf, accepted, bad>>
             ELSE IF profile = "good" THEN exit' = (IF bad THEN 1 ELSE 0) /\ diag' = FALSE /\ UNCHANGED <<buf, accepted, bad>>
             ELSE LET f == IF bad THEN [acc |-> accepted, ok |-> FALSE] ELSE Flush(buf) IN
                  accepted' = f.acc /\ bad' = ~f.ok /\ buf' = 0 /\ exit' = (IF f.ok THEN 0 ELSE 1) /\ diag' = ~f.ok
          /\ st' = "exiting" /\ UNCHANGED <<chunks, cap, failAt, profile, unchecked, bounds, i>>
\* the C/C++ runtime flushes what is still buffered at exit; its failure cannot change the exit status any more
AtExit == /\ st = "exiting"
          /\ LET f == IF bad THEN [acc |-> accepted, ok |-> FALSE] ELSE Flush(buf) IN accepted' = f.acc /\ bad' = ~f.ok /\ buf' = 0
          /\ st' = "done" /\ UNCHANGED <<chunks, cap, failAt, profile, unchecked, bounds, i, exit, diag>>
Next == Put \/ Finish \/ CPut \/ CFinish \/ AtExit
Spec == Init /\ [][Next]_vars

ROutcome(total, acc, ex, dg) == (ex = 0 => acc = total) /\ (ex # 0 => dg)
ExitZeroImpliesComplete == st = "done" => ROutcome(Sum(chunks), accepted, exit, diag)
=============================================================================
