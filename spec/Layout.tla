------------------------------- MODULE Layout -------------------------------
(***************************************************************************)
(* Where a sector of a surface lives in a sector-dump container file.      *)
(* Constant-level definitions shared by Containers.tla (which checks        *)
(* M = R for every geometry) and ReadStack.tla / TraceReadStack.tla (which  *)
(* follow single reads through the layers of the implementation).           *)
(* Units are sectors (256 bytes).                                           *)
(***************************************************************************)
EXTENDS Naturals, Sequences, FiniteSets, TLC

-----------------------------------------------------------------------------
(* R: documented offset of (side, track, sector), in sectors; FAIL beyond the surface *)
FAIL == 100000000
ROffset(k, c, p, h, t, s) ==
    IF k = "mmb" THEN (IF t < 80 /\ s < 10 THEN 32 + h * 800 + t * 10 + s ELSE FAIL)     \* 8192 + slot * 204800 bytes
    ELSE IF ~(t < c /\ s < p) THEN FAIL
    ELSE IF k = "inter" THEN (t * 2 + h) * p + s         \* tracks alternate by side
    ELSE (h * c + t) * p + s                             \* each side contiguous

(* M: the view and its arithmetic *)
View(k, c, p, h) ==
    IF k = "mmb" THEN [skip |-> 32 + h * 800, take |-> 800, leave |-> 0, total |-> 800]
    ELSE IF k = "inter" THEN [skip |-> h * p, take |-> p, leave |-> p, total |-> c * p]
    ELSE [skip |-> h * (c * p), take |-> c * p, leave |-> 0, total |-> c * p]
MRead(v, sec) == IF v.take = 0 \/ sec >= v.total THEN FAIL
                 ELSE v.skip + (sec \div v.take) * (v.take + v.leave) + (sec % v.take)

=============================================================================
