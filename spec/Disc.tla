-------------------------------- MODULE Disc --------------------------------
(***************************************************************************)
(* Reading a catalogued file's body (C01) without ever leaving the volume  *)
(* or surface that was addressed (C17).                                    *)
(*                                                                         *)
(* Geometry of one read: a volume [o, o+L) lives on a surface of S sectors *)
(* whose backing file holds F sectors of it (F < S: truncated image).      *)
(* Acorn/Watford: o = 0, L = S.  Opus DDOS: several volumes per surface.   *)
(* Two-sided and MMB containers: the backing file continues after S with   *)
(* other surfaces, so nothing but the bound stops a read from going there. *)
(*                                                                         *)
(* R: ROutcome -- exact body, or an error with nothing foreign delivered.   *)
(* M: the walk of CatalogEntry::visit_file_body_piecewise through           *)
(*    Volume::Access::read_block -> FileView::read_block -> file read.      *)
(***************************************************************************)
EXTENDS Naturals, Sequences, FiniteSets, TLC, Json

CONSTANTS Regions,     \* set of [o, L, S, F] records (model scale)
          MaxN         \* file sizes in sectors 0..MaxN

VARIABLES reg, start, nsec, rem,   \* the case: region, entry start sector, whole sectors, bytes in a last partial sector (0 = none)
          sec, out, st             \* the walk: loop variable, absolute sectors delivered so far (with byte counts), state

vars == <<reg, start, nsec, rem, sec, out, st>>

Len18(n, r) == n * 256 + r                    \* file_length
NSect(n, r) == n + (IF r > 0 THEN 1 ELSE 0)   \* sectors the body occupies

-----------------------------------------------------------------------------
(* R *)
Exact(o, s, n, r) == [i \in 1..NSect(n, r) |-> [lba |-> o + s + i - 1, len |-> IF i <= n THEN 256 ELSE r]]
InExtent(g, s, n, r) == /\ s + NSect(n, r) <= g.L
                        /\ g.o + s + NSect(n, r) <= g.S
                        /\ g.o + s + NSect(n, r) <= g.F
InsideRegion(g, lba) == lba >= g.o /\ lba < g.o + g.L /\ lba < g.S
IsPrefixOf(a, b) == Len(a) <= Len(b) /\ \A i \in 1..Len(a) : a[i] = b[i]
\* result: "done" / "error"; delivered: sequence of [lba, len]
ROutcome(g, s, n, r, result, delivered) ==
    IF NSect(n, r) = 0
    THEN /\ delivered = <<>>
         \* an empty file has no extent.  It must read as empty when its start sector exists; when the start
         \* sector itself lies at/after the end (e.g. empty file catalogued at the first sector past a full
         \* disc) the statement is silent and both an empty result and an error are accepted.
         /\ (s < g.L /\ g.o + s < g.S /\ g.o + s < g.F) => result = "done"
    ELSE IF InExtent(g, s, n, r)
    THEN result = "done" /\ delivered = Exact(g.o, s, n, r)
    ELSE /\ result = "error"
         /\ \A i \in 1..Len(delivered) : InsideRegion(g, delivered[i].lba)
         /\ IsPrefixOf(delivered, Exact(g.o, s, n, r))

-----------------------------------------------------------------------------
(* M *)
Last == IF Len18(nsec, rem) = 0 THEN start ELSE start + NSect(nsec, rem) - 1     \* CatalogEntry::last_sector
VolAllows(lba) == lba < reg.L          \* Volume::Access::read_block   (was: lba <= len_, repaired)
ViewAllows(abs) == abs < reg.S         \* FileView::read_block: sector >= total_ fails
FileHas(abs) == abs < reg.F            \* FilePresentedBlockwise: short read fails

Init == /\ reg \in Regions /\ start \in 0..12 /\ nsec \in 0..MaxN /\ rem \in {0, 1, 255}
        /\ sec = start /\ out = <<>> /\ st = "run"

Remaining == Len18(nsec, rem) - 256 * (sec - start)
ReadSector ==
    /\ st = "run" /\ sec <= Last
    /\ IF VolAllows(sec) /\ ViewAllows(reg.o + sec) /\ FileHas(reg.o + sec)
       THEN /\ out' = IF Remaining > 0 THEN Append(out, [lba |-> reg.o + sec, len |-> IF Remaining > 256 THEN 256 ELSE Remaining]) ELSE out
            /\ sec' = sec + 1 /\ st' = st
       ELSE st' = "error" /\ UNCHANGED <<sec, out>>       \* throw BadFileSystem("end of media ...")
    /\ UNCHANGED <<reg, start, nsec, rem>>
Finish == st = "run" /\ sec > Last /\ st' = "done" /\ UNCHANGED <<reg, start, nsec, rem, sec, out>>
Next == ReadSector \/ Finish
Spec == Init /\ [][Next]_vars

\* M |= R: when the walk ends, its result is one the requirement accepts; and at every step nothing foreign
MeetsR == st \in {"done", "error"} => ROutcome(reg, start, nsec, rem, st, out)
NoForeign == \A i \in 1..Len(out) : InsideRegion(reg, out[i].lba)
Emit == st \in {"done", "error"} =>
          PrintT(<<"CASE", ToJson([reg |-> reg, start |-> start, nsec |-> nsec, rem |-> rem, st |-> st, nout |-> Len(out)])>>)

RegionsOne == { [o |-> 0, L |-> 8, S |-> 8, F |-> 8] }
RegionsSmall == { [o |-> 0, L |-> 8, S |-> 8, F |-> 8],      \* Acorn/Watford: volume = surface = file
                  [o |-> 0, L |-> 8, S |-> 8, F |-> 16],     \* side 0 of a two-sided file / MMB slot: file continues
                  [o |-> 0, L |-> 8, S |-> 8, F |-> 6],      \* truncated image file
                  [o |-> 4, L |-> 4, S |-> 12, F |-> 12],    \* Opus volume followed by another volume
                  [o |-> 8, L |-> 4, S |-> 12, F |-> 12],    \* last Opus volume
                  [o |-> 8, L |-> 4, S |-> 12, F |-> 24] }   \* last Opus volume, file continues (gz padding etc.)
=============================================================================
