------------------------------ MODULE TraceAfsp ------------------------------
(* Judges what the real AFSPMatcher (info WILDCARD) and parse_filename + has_name (type/list/dump NAME) did   *)
(* for every catalogued file of the constant set Files, against RMatch / RValid / RLookup of Afsp.tla.        *)
EXTENDS Afsp, IOUtils, Integers
TraceLog == ndJsonDeserialize(IOEnv.TRACE)
VARIABLES l, bad
tvars == <<vars, l, bad>>
Ev == TraceLog[l]
ToFile(x) == [drive |-> x[1], dir |-> x[2], name |-> x[3]]
Sel(ev) == {ToFile(ev.sel[i]) : i \in 1..Len(ev.sel)}

MatchOK(ev) ==
    IF ~InDomain(ev.pat) THEN TRUE
    ELSE /\ (ev.valid = 1) = RValid(ev.pat, ev.cdrive, ev.cdir)
         /\ \A f \in Files : (f \in Sel(ev)) = RMatch(ev.pat, ev.cdrive, ev.cdir, f)
         /\ Sel(ev) \subseteq Files
\* names with a malformed drive part (":-0.", ":+1.") are outside the domain of the lookup requirement
LookupDomain(p) == InDomain(p) /\ (Len(p) >= 1 /\ p[1] = COLON => DrivePrefixLen(p) > 0)
LookupOK(ev) ==
    IF ~LookupDomain(ev.pat) THEN TRUE
    ELSE \A f \in Files :
           LET want == RLookup(ev.pat, ev.cdrive, ev.cdir, f) IN
           IF f \in Sel(ev) THEN want \in {"yes", "either"} ELSE want \in {"no", "either"}
\* type NAME on a real disc whose catalogue is ev.cat (fragments of entries): found (1) / reported not found (0)
FindOK(ev) == LET want == RFind(ev.cat, ev.qdir, ev.qname) IN
              IF ev.found = 1 THEN want \in {"yes", "either"} ELSE ev.found = 0 /\ want \in {"no", "either"}
Judge(ev) == CASE ev.e = "match" -> MatchOK(ev)
               [] ev.e = "lookup" -> LookupOK(ev)
               [] ev.e = "find" -> FindOK(ev)
               [] OTHER -> FALSE
TInit == pat = <<>> /\ cdir = 0 /\ l = 1 /\ bad = {}
TNext == /\ l <= Len(TraceLog) /\ l' = l + 1
         /\ bad' = IF Judge(Ev) THEN bad ELSE bad \cup {l}
         /\ UNCHANGED vars
TSpec == TInit /\ [][TNext]_tvars
Final == (l = Len(TraceLog) + 1) => PrintT(<<"VERDICT", ToJson([bad |-> bad, n |-> Len(TraceLog)])>>)
Accepted == TLCGet("stats").diameter - 1 = Len(TraceLog)
=============================================================================
