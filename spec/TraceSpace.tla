------------------------------ MODULE TraceSpace ------------------------------
(* Judges free / space / sector-map / extract-unused observations of the real dfs against the set-based     *)
(* requirement operators of Space.tla at real scale.                                                          *)
EXTENDS Space, IOUtils, Integers
TraceLog == ndJsonDeserialize(IOEnv.TRACE)
VARIABLES l, bad
tvars == <<vars, l, bad>>
Ev == TraceLog[l]

FreeOK(ev) == ev.rc = 0 /\ RFreeOK(ev.lay.frags, ev.lay.T, ev.lay.base, ev.lay.maxfiles, ev.obs)
SpaceOK(ev) == ev.rc = 0 /\ RSpaceOK(ev.lay.frags, ev.lay.T, ev.lay.cs, ev.gaps, ev.total)
MapOK(ev) == /\ ev.rc = 0 /\ Len(ev.owners) = ev.lay.T
             /\ \A s \in 0..(ev.lay.T - 1) : ROwnerOK(ev.lay.frags, ev.lay.cs, s, ev.owners[s + 1])
UnusedOK(ev) == /\ ev.rc = 0
                /\ {<<ev.runs[i][1], ev.runs[i][2]>> : i \in 1..Len(ev.runs)} = RRuns(ev.lay.frags, ev.lay.T, ev.lay.cs)
                /\ \A i \in 1..Len(ev.runs) : ev.runs[i][3] = 1          \* bytes are those sectors'
                /\ \A i, j \in 1..Len(ev.runs) : i # j => ev.runs[i][1] # ev.runs[j][1]
Judge(ev) == CASE ev.e = "free" -> FreeOK(ev)
               [] ev.e = "space" -> SpaceOK(ev)
               [] ev.e = "map" -> MapOK(ev)
               [] ev.e = "unused" -> UnusedOK(ev)
               [] OTHER -> FALSE
TInit == frags = <<>> /\ l = 1 /\ bad = {}
TNext == /\ l <= Len(TraceLog) /\ l' = l + 1
         /\ bad' = IF Judge(Ev) THEN bad ELSE bad \cup {l}
         /\ UNCHANGED frags
TSpec == TInit /\ [][TNext]_tvars
Final == (l = Len(TraceLog) + 1) => PrintT(<<"VERDICT", ToJson([bad |-> bad, n |-> Len(TraceLog)])>>)
Accepted == TLCGet("stats").diameter - 1 = Len(TraceLog)
=============================================================================
