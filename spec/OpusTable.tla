------------------------------ MODULE OpusTable ------------------------------
(***************************************************************************)
(* The Opus DDOS volume table (sector 16) and the extents of the volumes    *)
(* it defines (dfs/opus_cat.cc, OpusDiscCatalogue).  C17, C13, C01.         *)
(* The table lists, for the volumes A, B, C, ... in turn, the start track   *)
(* (0: no volume; the list ends there).  A volume extends from its start    *)
(* track to the start of the next volume in track order, the last one to    *)
(* the end of the disc.                                                     *)
(* R: RSelfConsistent, RExtent.                                             *)
(* M: entries read up to the first zero; sorted by start sector; extents    *)
(*    assigned walking the sorted list backwards from the disc's total.     *)
(***************************************************************************)
EXTENDS Naturals, Sequences, FiniteSets, TLC, Json
CONSTANTS N,            \* table entries considered (the rest are zero)
          TrackVals,    \* values a start-track byte takes
          Tracks, Spt   \* geometry of the disc
VARIABLES table
vars == <<table>>
Total == Tracks * Spt

(* R *)
\* the listed volumes: entries before the first zero (a table with a zero followed by a non-zero entry is outside the
\* requirement's domain: the statement does not say whether such a volume exists)
RDomain(t) == \A i \in 1..(Len(t) - 1) : t[i] = 0 => t[i + 1] = 0
RListed(t) == {i \in 1..Len(t) : t[i] # 0}
RSelfConsistent(t) == /\ RListed(t) # {}
                      /\ \A i \in RListed(t) : t[i] < Tracks
                      /\ \A i, j \in RListed(t) : i # j => t[i] # t[j]
RExtent(t, i) == LET later == {t[j] * Spt : j \in {k \in RListed(t) : t[k] > t[i]}}
                     nxt == IF later = {} THEN Total ELSE CHOOSE x \in later : \A y \in later : x <= y
                 IN [origin |-> t[i] * Spt, len |-> nxt - t[i] * Spt, cat |-> 2 * (i - 1)]

(* M *)
RECURSIVE MListedUpTo(_, _)
MListedUpTo(t, i) == IF i > Len(t) \/ t[i] = 0 THEN {} ELSE {i} \cup MListedUpTo(t, i + 1)
MListed(t) == MListedUpTo(t, 1)
\* sort by start sector (ties: std::sort leaves them in unspecified order; self-consistent tables have none)
MSorted(t) == LET L == MListed(t)
                  RECURSIVE Build(_)
                  Build(S) == IF S = {} THEN <<>> ELSE LET m == CHOOSE i \in S : \A j \in S : t[i] <= t[j] IN <<m>> \o Build(S \ {m})
              IN Build(L)
MAccepts(t) == \A i \in MListed(t) : t[i] < Tracks           \* (with the geometry known; the backward walk cannot fail then)
RECURSIVE MWalk(_, _, _, _)
MWalk(t, srt, k, nxt) == IF k = 0 THEN <<>>
                         ELSE MWalk(t, srt, k - 1, t[srt[k]] * Spt) \o <<[i |-> srt[k], origin |-> t[srt[k]] * Spt, len |-> nxt - t[srt[k]] * Spt, cat |-> 2 * (srt[k] - 1)]>>
MVolumes(t) == MWalk(t, MSorted(t), Len(MSorted(t)), Total)

Init == table \in [1..N -> TrackVals]
Next == UNCHANGED vars
ExtentsMeetR == (RDomain(table) /\ RSelfConsistent(table)) =>
                   /\ MAccepts(table) /\ MListed(table) = RListed(table)
                   /\ \A k \in 1..Len(MVolumes(table)) : LET mv == MVolumes(table)[k] IN
                         [origin |-> mv.origin, len |-> mv.len, cat |-> mv.cat] = RExtent(table, mv.i)
\* volumes of a self-consistent table tile the disc from the first volume's start: no sector belongs to two volumes
Disjoint == (RDomain(table) /\ RSelfConsistent(table)) =>
               \A i, j \in RListed(table) : i # j =>
                  LET a == RExtent(table, i) b == RExtent(table, j) IN a.origin + a.len <= b.origin \/ b.origin + b.len <= a.origin
Emit == RDomain(table) => PrintT(<<"CASE", ToJson([table |-> table, ok |-> RSelfConsistent(table),
                                    vols |-> [i \in RListed(table) |-> RExtent(table, i)]])>>)
=============================================================================
