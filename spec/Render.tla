------------------------------- MODULE Render -------------------------------
(* The documented renderings of a file body (C01): type (CR -> newline), list (numbered lines), dump      *)
(* (8-byte rows of hex + printable text).  Pure requirement operators over byte sequences; the            *)
(* implementation is bound by TraceDisc.tla, which compares real output with these.                        *)
EXTENDS Naturals, Sequences

RType(b) == [i \in 1..Len(b) |-> IF b[i] = 13 THEN 10 ELSE b[i]]

\* decimal digits of n, right-aligned in a field of 4 (wider if needed)
RECURSIVE Digits(_)
Digits(n) == IF n < 10 THEN <<48 + n>> ELSE Digits(n \div 10) \o <<48 + (n % 10)>>
Pad4(s) == IF Len(s) >= 4 THEN s ELSE [i \in 1..(4 - Len(s)) |-> 32] \o s

\* list: each line is preceded by its number in a 4-column field and a blank; CR ends the line
RECURSIVE RListFrom(_, _, _, _)
RListFrom(b, i, lineno, atStart) ==
    IF i > Len(b) THEN <<>>
    ELSE (IF atStart THEN Pad4(Digits(lineno)) \o <<32>> ELSE <<>>)
         \o (IF b[i] = 13 THEN <<10>> ELSE <<b[i]>>)
         \o RListFrom(b, i + 1, IF atStart THEN lineno + 1 ELSE lineno, b[i] = 13)
RList(b) == RListFrom(b, 1, 1, TRUE)

\* dump: rows of 8 bytes; text column shows printable ASCII (space..~) as itself, anything else as '.'
Printable(c) == c >= 32 /\ c <= 126
RowCount(b) == (Len(b) + 7) \div 8
RDumpRows(b) == [r \in 1..RowCount(b) |->
                   LET lo == 8 * (r - 1) + 1
                       hi == IF 8 * r <= Len(b) THEN 8 * r ELSE Len(b)
                   IN [hex |-> SubSeq(b, lo, hi),
                       asc |-> [k \in 1..8 |-> IF lo + k - 1 <= hi
                                               THEN (IF Printable(b[lo + k - 1]) THEN b[lo + k - 1] ELSE 46)
                                               ELSE 46]]]
=============================================================================
