INIT Init
NEXT Next
CONSTANTS Cyls = {35, 40, 80}
 Spts = {10, 16, 18}
 MmbSlots = {0, 1, 2, 255, 509, 510}
INVARIANT ViewEqualsOffset
INVARIANT BeyondEndFails
INVARIANT SidesDisjoint
INVARIANT MmbStatusRule
INVARIANT Emit
CHECK_DEADLOCK FALSE
