-------------------------------- MODULE Hfe3 --------------------------------
(***************************************************************************)
(* The HFE track-stream reader (C05): de-interleaving of 256-byte side      *)
(* blocks and the HFEv3 opcode interpreter copy_hfe() of img_hfe.cc.        *)
(* A side's byte stream is a sequence of elements                           *)
(*    [k |-> "d", v |-> n]   a byte of flux cells (payload n)               *)
(*    [k |-> "nop"] [k |-> "idx"]            one-byte opcodes               *)
(*    [k |-> "rate", v |-> n]                SETBITRATE + operand byte      *)
(*    [k |-> "skip", v |-> n]                SKIPBITS + operand byte (n<8)  *)
(* laid out in blocks of BlockSize bytes (256 in reality).                  *)
(* R: the cells delivered to the decoder are exactly the payload bytes in   *)
(*    order (opcodes are transparent; SKIPBITS n drops the first n cells of *)
(*    the following payload byte).                                          *)
(* M: one interpreter step per input byte; `thisop` now survives the end of *)
(*    a block (repaired); SKIPBITS handling is modelled as coded.           *)
(***************************************************************************)
EXTENDS Naturals, Sequences, FiniteSets, TLC, Json
CONSTANTS BlockSize, MaxData, MaxOps, V3, WithSkip

VARIABLES elems, bytes, i, thisop, out, lost
vars == <<elems, bytes, i, thisop, out, lost>>

Data(n) == [k |-> "d", v |-> n]
OpKinds == {[k |-> "nop"], [k |-> "idx"], [k |-> "rate", v |-> 242]} \cup (IF WithSkip THEN {[k |-> "skip", v |-> 0], [k |-> "skip", v |-> 3]} ELSE {})
\* flatten elements to the byte stream: payload bytes are numbered 1.. (never opcode-like), opcodes are tagged
Flat(es) == LET F[n \in 0..Len(es)] ==
                  IF n = 0 THEN <<>>
                  ELSE F[n - 1] \o (CASE es[n].k = "d" -> <<[t |-> "d", v |-> es[n].v]>>
                                      [] es[n].k = "nop" -> <<[t |-> "op", o |-> "nop"]>>
                                      [] es[n].k = "idx" -> <<[t |-> "op", o |-> "idx"]>>
                                      [] es[n].k = "rate" -> <<[t |-> "op", o |-> "rate"], [t |-> "arg", v |-> es[n].v]>>
                                      [] OTHER -> <<[t |-> "op", o |-> "skip"], [t |-> "arg", v |-> es[n].v]>>)
            IN F[Len(es)]
\* all interleavings of d(1..n) with at most MaxOps opcodes
RECURSIVE Streams(_, _, _)
Streams(nd, next, nops) ==
    {<<>>} \cup (IF next <= nd THEN {<<Data(next)>> \o s : s \in Streams(nd, next + 1, nops)} ELSE {})
           \cup (IF nops > 0 THEN UNION {{<<o>> \o s : s \in Streams(nd, next, nops - 1)} : o \in OpKinds} ELSE {})
Complete(es, nd) == Cardinality({n \in 1..Len(es) : es[n].k = "d"}) = nd

(* R: payload delivered: sequence of [v, skip] = payload byte v with its first `skip` cells dropped *)
RECURSIVE RCells(_, _)
RCells(es, pendingSkip) ==
    IF Len(es) = 0 THEN <<>>
    ELSE IF es[1].k = "d" THEN <<[v |-> es[1].v, skip |-> pendingSkip]>> \o RCells(Tail(es), 0)
    ELSE IF es[1].k = "skip" THEN RCells(Tail(es), es[1].v)
    ELSE RCells(Tail(es), pendingSkip)

(* M *)
Init == /\ elems \in UNION {{s \in Streams(nd, 1, MaxOps) : Complete(s, nd)} : nd \in 1..MaxData}
        /\ bytes = Flat(elems) /\ i = 1 /\ thisop = "" /\ out = <<>> /\ lost = FALSE
AtBlockStart == (i - 1) % BlockSize = 0
Step ==
    /\ i <= Len(bytes)
    /\ LET b == bytes[i] IN
       IF thisop # "" THEN
            \* this byte is the operand of the pending opcode
            IF thisop = "rate" THEN thisop' = "" /\ UNCHANGED <<out, lost>>
            ELSE \* "skip": as coded the operand byte itself is shifted into the output with `skip` bits dropped,
                 \* and got_bits never returns to exactly 8 within the block: output is lost
                 /\ thisop' = ""
                 /\ out' = out
                 /\ lost' = TRUE
       ELSE IF V3 /\ b.t = "op" THEN
            /\ thisop' = (IF b.o \in {"nop", "idx"} THEN "" ELSE b.o)
            /\ UNCHANGED <<out, lost>>
       ELSE \* payload byte (or, in a v1 file, any byte)
            /\ out' = IF lost THEN out ELSE Append(out, [v |-> (IF b.t = "d" THEN b.v ELSE 999), skip |-> 0])
            /\ UNCHANGED <<thisop, lost>>
    /\ i' = i + 1 /\ UNCHANGED <<elems, bytes>>
Next == Step
Spec == Init /\ [][Next]_vars
Done == i > Len(bytes)
OpcodesTransparent == Done => out = RCells(elems, 0)
Emit == Done => PrintT(<<"CASE", ToJson(elems)>>)
=============================================================================
