----------------------------- MODULE TraceTrackM -----------------------------
(* Trace validation of the implementation-shaped decoder model: the decision events recorded by the hooks in     *)
(* track_fm.cc / track_mfm.cc (verif-hook commit; build with -DBEEBTOOLS_VERIF, BEEBTOOLS_VERIF_TRACE=file)      *)
(* must be a behaviour of Track.tla's LookId / LookData steps for the faults that were injected.  A batch is a   *)
(* sequence of   {"e":"case",faults,cut,partial} event* {"e":"end"}   groups.  Decoder steps that the code does  *)
(* not report (the final scan that finds nothing) are silent model steps.  Acceptance = the invariant NotAccepted *)
(* is violated (some interleaving of silent steps consumes the whole trace).  A rejection means the code no       *)
(* longer follows the model: reported as model drift, never as a property violation.                              *)
EXTENDS Track, IOUtils, Integers
TraceLog == ndJsonDeserialize(IOEnv.TRACE)
VARIABLES l
tvars == <<vars, l>>
Ev == TraceLog[l]
IsEv(e) == l <= Len(TraceLog) /\ Ev.e = e
TInit == /\ faults = [i \in 1..N |-> "ok"] /\ cut = N /\ partial = FALSE /\ pos = 1 /\ st = "Done" /\ cur = 0 /\ yielded = <<>> /\ l = 1
TCase == /\ IsEv("case") /\ st = "Done"
         /\ faults' = Ev.faults /\ cut' = Ev.cut /\ partial' = Ev.partial
         /\ pos' = 1 /\ st' = "LookId" /\ cur' = 0 /\ yielded' = <<>> /\ l' = l + 1
TEnd == IsEv("end") /\ st = "Done" /\ l' = l + 1 /\ UNCHANGED vars
\* reported decisions
TIdOk == IsEv("id") /\ Ev.ok = 1 /\ LookId /\ st' = "LookData" /\ cur' = Ev.rec + 1 /\ l' = l + 1
TIdBad == IsEv("id") /\ Ev.ok = 0 /\ LookId /\ st' = "LookId" /\ pos' > pos /\ l' = l + 1
TYield == IsEv("data") /\ Ev.res = "yield" /\ LookData /\ Len(yielded') = Len(yielded) + 1 /\ cur = Ev.rec + 1 /\ l' = l + 1
TDrop == IsEv("data") /\ Ev.res # "yield" /\ LookData /\ yielded' = yielded /\ pos' = pos + 1 /\ l' = l + 1
TFar == IsEv("far") /\ LookData /\ pos' = pos /\ l' = l + 1
\* unreported: once no data mark is left on the track the code's scan for one runs off the end and the decoder stops without
\* looking at anything else; the model may still walk over the remaining ID fields -- none of that can yield a sector
NoDataLeft == ~(\E i \in pos..N : ~IsId(i) /\ Recognisable(i))
TSilent == /\ ((LookId /\ st' = "Done") \/ (NoDataLeft /\ (LookId \/ LookData) /\ yielded' = yielded))
           /\ l' = l
TNext == TCase \/ TEnd \/ TIdOk \/ TIdBad \/ TYield \/ TDrop \/ TFar \/ TSilent
TSpec == TInit /\ [][TNext]_tvars
NotAccepted == l <= Len(TraceLog)
Progress == TLCSet(1, IF TLCGet(1) > l THEN TLCGet(1) ELSE l)
=============================================================================
