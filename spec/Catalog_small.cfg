SPECIFICATION Spec
CONSTANTS Total = 1023
 MinStart = 2
 MaxFiles = 1
 Starts = {2, 255, 256, 767, 768, 1022}
 Lens = {0, 1, 256, 257, 65535, 65536, 131073, 196608, 261376}
 Addrs = {0, 1, 65535, 65536, 131071, 131072, 137472, 196607, 196608, 203008, 262143}
 Names <- NamesOne
 Dirs = {36}
 EmitAt = 1
INVARIANT FieldsAgree
INVARIANT ShownAgree
INVARIANT SignExtRule
INVARIANT CrcKnown
INVARIANT Emit
CHECK_DEADLOCK FALSE
