SPECIFICATION TSpec
CONSTANTS MaxChunks = 4
 ChunkSizes = {1, 2, 5}
 Caps = {1, 3, 100}
 Profiles = {"flush+test"}
INVARIANT Final
POSTCONDITION Accepted
CHECK_DEADLOCK FALSE
