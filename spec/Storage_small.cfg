SPECIFICATION Spec
CONSTANTS MaxImages = 3
 MaxDrive = 40
 Kinds = {1,2,3}
INVARIANT Injective
INVARIANT ReadsAddressedDrive
INVARIANT Emit
PROPERTY AppendOnly
PROPERTY AttachMeetsR
PROPERTY TwoSidedPhysical
CONSTRAINT Bound
CONSTRAINT NoDoubleSwitch
CHECK_DEADLOCK FALSE
