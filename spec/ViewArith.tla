------------------------------ MODULE ViewArith ------------------------------
(***************************************************************************)
(* FileView::read_block for arbitrary parameters (C04).  A view presents,   *)
(* as one device of `total` sectors, the sectors of a file that remain      *)
(* when `skip` sectors are passed over and then, repeatedly, `take` sectors *)
(* are kept and `leave` sectors are passed over.                            *)
(* R: RTaken - the position of the x-th kept sector, by walking the file.   *)
(* M: Layout.tla's MRead - the closed formula the code evaluates.           *)
(***************************************************************************)
EXTENDS Layout, Json
CONSTANTS MaxSkip, MaxTake, MaxLeave, MaxTotal, MaxSector
VARIABLES w, x
vars == <<w, x>>
\* walk: the 0th kept sector is at `skip`; after the last sector of a group the next kept one is `leave` further on
RTaken(v, n) == LET F[k \in 0..n] == IF k = 0 THEN v.skip
                                     ELSE IF k % v.take = 0 THEN F[k - 1] + 1 + v.leave ELSE F[k - 1] + 1 IN F[n]
RViewRead(v, n) == IF v.take = 0 \/ n >= v.total THEN FAIL ELSE RTaken(v, n)
Init == /\ w \in [skip : 0..MaxSkip, take : 0..MaxTake, leave : 0..MaxLeave, total : 0..MaxTotal]
        /\ x \in 0..MaxSector
Next == UNCHANGED vars
FormulaIsWalk == MRead(w, x) = RViewRead(w, x)
Emit == PrintT(<<"CASE", ToJson([w |-> w, x |-> x])>>)
=============================================================================
