SPECIFICATION TSpec
CONSTANTS MaxImages = 100
 MaxDrive = 1200
 Kinds = {1,2,3}
INVARIANT Final
POSTCONDITION Accepted
CHECK_DEADLOCK FALSE
