SPECIFICATION Spec
CONSTANTS BlockSize = 2
 MaxData = 3
 MaxOps = 2
 V3 = TRUE
 WithSkip = FALSE
INVARIANT OpcodesTransparent
INVARIANT Emit
CHECK_DEADLOCK FALSE
