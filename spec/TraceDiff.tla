------------------------------ MODULE TraceDiff ------------------------------
(* Judges 2-run (non-interference) observations: a variant run of a session gives the same standard output      *)
(* (or, for cat under --ui / COLUMNS, the same projected content) and the same exit status as the base run.      *)
(* Used by C18 (diagnostic / presentation options) and C19 (assertions compiled in or out).                       *)
EXTENDS Naturals, Sequences, TLC, Json, IOUtils
TraceLog == ndJsonDeserialize(IOEnv.TRACE)
VARIABLES l, bad
Ev == TraceLog[l]
Judge(ev) == ev.same = 1
TInit == l = 1 /\ bad = {}
TNext == /\ l <= Len(TraceLog) /\ l' = l + 1
         /\ bad' = IF Judge(Ev) THEN bad ELSE bad \cup {l}
TSpec == TInit /\ [][TNext]_<<l, bad>>
Final == (l = Len(TraceLog) + 1) => PrintT(<<"VERDICT", ToJson([bad |-> bad, n |-> Len(TraceLog)])>>)
Accepted == TLCGet("stats").diameter - 1 = Len(TraceLog)
=============================================================================
