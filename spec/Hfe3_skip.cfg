SPECIFICATION Spec
CONSTANTS BlockSize = 2
 MaxData = 3
 MaxOps = 2
 V3 = TRUE
 WithSkip = TRUE
INVARIANT OpcodesTransparent
CHECK_DEADLOCK FALSE
