INIT Init
NEXT Next
CONSTANTS MaxSkip = 3
 MaxTake = 3
 MaxLeave = 3
 MaxTotal = 7
 MaxSector = 8
INVARIANT FormulaIsWalk
INVARIANT Emit
CHECK_DEADLOCK FALSE
