SPECIFICATION TSpec
CONSTANTS Regions <- RegionsOne
 MaxN = 0
INVARIANT Final
POSTCONDITION Accepted
CHECK_DEADLOCK FALSE
