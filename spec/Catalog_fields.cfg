SPECIFICATION Spec
CONSTANTS Total = 1023
 MinStart = 2
 MaxFiles = 1
 Starts = {2, 3, 255, 256, 511, 512, 767, 768, 1000, 1022}
 Lens = {0, 1, 255, 256, 257, 65535, 65536, 65537, 131072, 131073, 196608, 196609, 261376}
 Addrs = {0, 1, 32767, 32768, 65535, 65536, 65537, 131071, 131072, 137472, 163840, 196607, 196608, 203008, 262142, 262143}
 Names <- NamesOne
 Dirs = {36}
 EmitAt = 1
INVARIANT FieldsAgree
INVARIANT ShownAgree
INVARIANT SignExtRule
INVARIANT CrcKnown
INVARIANT Emit
CHECK_DEADLOCK FALSE
