------------------------------ MODULE TraceFlux ------------------------------
(* Judges the differential observations of C05: Obs(command, flux image) = Obs(command, sector dump of the same  *)
(* disc), where the flux image was recorded with parameters taken from Track.tla / Hfe3.tla behaviours.           *)
EXTENDS Naturals, Sequences, TLC, Json, IOUtils
TraceLog == ndJsonDeserialize(IOEnv.TRACE)
VARIABLES l, bad
Ev == TraceLog[l]
Judge(ev) == ev.e = "equiv" /\ ev.same = 1 /\ ev.rc_flux = ev.rc_dump
TInit == l = 1 /\ bad = {}
TNext == /\ l <= Len(TraceLog) /\ l' = l + 1
         /\ bad' = IF Judge(Ev) THEN bad ELSE bad \cup {l}
TSpec == TInit /\ [][TNext]_<<l, bad>>
Final == (l = Len(TraceLog) + 1) => PrintT(<<"VERDICT", ToJson([bad |-> bad, n |-> Len(TraceLog)])>>)
Accepted == TLCGet("stats").diameter - 1 = Len(TraceLog)
=============================================================================
