SPECIFICATION TSpec
CONSTANTS NSec = 3
 Enc = "MFM"
 Faults = {"ok", "crc", "nomark", "deleted"}
INVARIANT NotAccepted
CHECK_DEADLOCK FALSE
