---------------------------- MODULE TraceCatalog ----------------------------
(* Judges observations of `info`, `cat`, `show-titles` and `.inf` files made on the real dfs against the   *)
(* requirement operators of Catalog.tla.  One event per (disc, command); every event is consumed and an     *)
(* event the requirement rejects puts its id into `bad`.                                                    *)
EXTENDS Catalog, IOUtils, Integers
TraceLog == ndJsonDeserialize(IOEnv.TRACE)
VARIABLES l, bad
tvars == <<vars, l, bad>>
Ev == TraceLog[l]

\* raw[i] = the 8 metadata bytes, nm[i] = <<dir, lock(0/1), name>> as written to the disc, obs[i] = what info printed
InfoOK(ev) ==
    /\ ev.rc = 0
    /\ Len(ev.obs) = Len(ev.raw)
    /\ \A i \in 1..Len(ev.raw) :
         LET m == ev.raw[i] o == ev.obs[i] IN
         /\ o.load = RShown(RLoad(m)) /\ o.exec = RShown(RExec(m))
         /\ o.len = RLen(m) /\ o.start = RStart(m)
         /\ o.dir = ev.nm[i][1] /\ o.lock = ev.nm[i][2] /\ o.name = ev.nm[i][3]

CatOK(ev) ==
    /\ ev.rc = 0
    /\ RCatOrderOK(ev.shown, ev.entries, ev.cur)
    /\ ev.title_obs = RTitle(ev.title_raw)
    /\ ev.cycle_obs = ev.cycle
    /\ ev.opt_obs = ev.opt
    /\ ev.dens_obs = (IF ev.mfm THEN "MFM" ELSE "FM")

TitlesOK(ev) == ev.rc = 0 /\ ev.title_obs = RTitle(ev.title_raw)

InfOK(ev) ==
    LET m == ev.raw o == ev.obs IN
    /\ o.load = RShown(RLoad(m)) /\ o.exec = RShown(RExec(m)) /\ o.len = RLen(m)
    /\ o.dir = ev.nm[1] /\ o.lock = ev.nm[2] /\ o.name = ev.nm[3]
    /\ o.crc = (IF "body" \in DOMAIN ev THEN CrcXmodem(ev.body) ELSE ev.crc_ref)

Judge(ev) == CASE ev.e = "info" -> InfoOK(ev)
               [] ev.e = "cat" -> CatOK(ev)
               [] ev.e = "titles" -> TitlesOK(ev)
               [] ev.e = "inf" -> InfOK(ev)
               [] OTHER -> FALSE

TInit == cat = <<>> /\ l = 1 /\ bad = {}
TNext == /\ l <= Len(TraceLog)
         /\ l' = l + 1
         /\ bad' = IF Judge(Ev) THEN bad ELSE bad \cup {l}
         /\ UNCHANGED cat
TSpec == TInit /\ [][TNext]_tvars
Final == (l = Len(TraceLog) + 1) => PrintT(<<"VERDICT", ToJson([bad |-> bad, n |-> Len(TraceLog)])>>)
Accepted == TLCGet("stats").diameter - 1 = Len(TraceLog)
=============================================================================
