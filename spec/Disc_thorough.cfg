SPECIFICATION Spec
CONSTANTS Regions <- RegionsSmall
 MaxN = 5
INVARIANT MeetsR
INVARIANT NoForeign
INVARIANT Emit
CHECK_DEADLOCK FALSE
