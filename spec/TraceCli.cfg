SPECIFICATION TSpec
CONSTANTS MaxOpts = 0
 OptTokens = {"help"}
 Commands = {"none"}
INVARIANT Final
POSTCONDITION Accepted
CHECK_DEADLOCK FALSE
