------------------------------ MODULE RenderGen ------------------------------
(* Enumerates file bodies for the rendering part of C01 and checks structural facts of the requirement     *)
(* operators themselves (so that the oracle is not vacuous or malformed).                                   *)
EXTENDS Render, FiniteSets, TLC, Json
CONSTANTS Alphabet, MaxLen
VARIABLE body
Strings == UNION {[1..n -> Alphabet] : n \in 0..MaxLen}
\* longer bodies around the 8-byte row size and with several lines
Long == { [i \in 1..n |-> IF i % 5 = 0 THEN 13 ELSE 64 + (i % 26)] : n \in {7, 8, 9, 15, 16, 17, 24, 25} }
        \cup { [i \in 1..n |-> IF i % 3 = 0 THEN 13 ELSE 255 - i] : n \in {8, 9, 16, 23} }
        \cup { [i \in 1..12 |-> 13] }
Init == body \in Strings \cup Long
Next == UNCHANGED body
NumCR(b) == Cardinality({i \in 1..Len(b) : b[i] = 13})
TypeKeepsLength == Len(RType(body)) = Len(body) /\ \A i \in 1..Len(body) : RType(body)[i] # 13
ListLineCount == LET lines == NumCR(body) + (IF Len(body) > 0 /\ body[Len(body)] # 13 THEN 1 ELSE 0)
                 IN Len(RList(body)) = Len(body) + 5 * lines     \* 4-column number + blank per line (lines < 10000)
DumpRowsCover == /\ Len(RDumpRows(body)) = (Len(body) + 7) \div 8
                 /\ \A r \in 1..Len(RDumpRows(body)) : Len(RDumpRows(body)[r].asc) = 8 /\ Len(RDumpRows(body)[r].hex) \in 1..8
Emit == PrintT(<<"CASE", ToJson(body)>>)
=============================================================================
