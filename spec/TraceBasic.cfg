SPECIFICATION TSpec
CONSTANTS MTab <- TabSmall
 MLe = FALSE
 MListo = 7
 Alphabet = {13}
 MaxLen = 0
 Prefixes <- NoAffix
 Suffixes <- NoAffix
INVARIANT Final
POSTCONDITION Accepted
CHECK_DEADLOCK FALSE
