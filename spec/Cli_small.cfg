SPECIFICATION Spec
CONSTANTS MaxOpts = 3
 OptTokens = {"file-ok", "file-missing", "file-noext", "file-badext", "file-garbage", "dir-ok", "dir-long", "dir-empty", "drive-ok", "drive-bad", "drive-neg", "drive-huge", "drive-junk", "drive-vol", "first", "physical", "show-config", "verbose", "ui-ok", "ui-bad", "help", "unknown", "ambiguous", "abbrev"}
 Commands = {"none", "nosuch", "cat", "info-all", "info-noarg", "info-badpat", "free", "type-file", "type-noarg", "type-missing", "sector-map", "dump-sector-ok", "dump-sector-args", "dump-sector-range", "dump-sector-overflow", "dump-sector-negoverflow", "cat-overflow", "free-overflow", "cat-junk", "free-junk", "extract-noarg", "extract-emptydest", "extract-nodir", "help-cmd", "help-nosuch", "cat-nodrive"}
INVARIANT ExitAlphabet
INVARIANT DiagnosticsNonInterfering
INVARIANT Emit
CHECK_DEADLOCK FALSE
