SPECIFICATION Spec
CONSTANTS Total = 400
 MinStart = 2
 MaxFiles = 3
 Starts = {10, 20, 30}
 Lens = {256}
 Addrs = {6400}
 Names <- NamesOrder
 Dirs = {36, 65, 97, 66}
 EmitAt = 3
INVARIANT FieldsAgree
INVARIANT Emit
CHECK_DEADLOCK FALSE
