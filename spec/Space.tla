------------------------------- MODULE Space -------------------------------
(***************************************************************************)
(* free / space / sector-map / extract-unused (C14).                       *)
(* A layout is 1 (Acorn, Opus volume) or 2 (Watford) catalogue fragments,  *)
(* each a sequence of entries [start, n] (n = sectors occupied, 0 for an   *)
(* empty file) on a volume of T sectors whose first CatSecs sectors hold   *)
(* the catalogue (0 in an Opus volume: its catalogue lives in track 0).    *)
(*                                                                         *)
(* R: set-based -- Owned, maximal free runs, the four commands' reports.    *)
(* M: the walk of cmd_space.cc (fragments last to first, entries last to    *)
(*    first, start_sec_of_next, the oddly placed initial gap), the sector   *)
(*    map of Catalog::map_sectors, the sentinel loop of extract-unused and  *)
(*    the arithmetic of cmd_free.cc -- as repaired (empty files ignored).   *)
(***************************************************************************)
EXTENDS Naturals, Sequences, FiniteSets, TLC, Json

CONSTANTS T, NFrag, MaxFiles, MaxLen, CatSecs, FreeBase
          \* FreeBase: what `free` counts as used on an empty volume (catalogue sectors: 2, Watford 4)

VARIABLE frags
vars == <<frags>>

Entry == [start : CatSecs..T, n : 0..MaxLen]
End(e) == e.start + e.n
NonEmpty(s) == SelectSeq(s, LAMBDA e : e.n > 0)
Flat(fs) == IF Len(fs) = 1 THEN fs[1] ELSE fs[1] \o fs[2]

\* well-formedness (the input domain of the property): in each fragment the non-empty files are in
\* descending order without overlap; all of fragment 2's files lie above fragment 1's; everything fits
DescOK(s) == \A i \in 1..(Len(s) - 1) : End(s[i + 1]) <= s[i].start
WellFormed(fs) ==
    /\ \A f \in 1..NFrag : DescOK(NonEmpty(fs[f])) /\ \A i \in 1..Len(fs[f]) : End(fs[f][i]) <= T
    /\ NFrag = 2 => \A i \in 1..Len(NonEmpty(fs[1])), j \in 1..Len(NonEmpty(fs[2])) :
                        End(NonEmpty(fs[1])[i]) <= NonEmpty(fs[2])[j].start

\* layouts are built one catalogue entry at a time (appending to either fragment) so that TLC only ever
\* constructs well-formed ones
Init == frags = [f \in 1..NFrag |-> <<>>]
AddEntry(f, e) == /\ Len(Flat(frags)) < MaxFiles
                  /\ LET nf == [frags EXCEPT ![f] = Append(@, e)] IN WellFormed(nf) /\ frags' = nf
Next == \E f \in 1..NFrag, e \in Entry : AddEntry(f, e)

-----------------------------------------------------------------------------
(* R *)
ROwned(fs, s) == \E i \in 1..Len(Flat(fs)) : Flat(fs)[i].start <= s /\ s < End(Flat(fs)[i])
RFreeSet(fs, t, cs) == {s \in cs..(t - 1) : ~ROwned(fs, s)}
\* maximal runs of free sectors as <<first, length>>; written so that TLC evaluates the free set once
RRuns(fs, t, cs) ==
    LET FS == RFreeSet(fs, t, cs)
        starts == {s \in FS : s = cs \/ (s - 1) \notin FS}
        ends == {s \in FS : (s + 1) \notin FS}
    IN {<<s, (CHOOSE e \in ends : e >= s /\ \A e2 \in ends : e2 >= s => e <= e2) - s + 1>> : s \in starts}
\* `space` prints gap sizes only: compare as multisets (count of each size)
SizeCount(runs, k) == Cardinality({r \in runs : r[2] = k})
SeqCount(sq, k) == Cardinality({i \in 1..Len(sq) : sq[i] = k})
RSpaceOK(fs, t, cs, gaps, total) ==
    LET runs == RRuns(fs, t, cs) IN
    /\ \A k \in {r[2] : r \in runs} \cup {gaps[i] : i \in 1..Len(gaps)} : SeqCount(gaps, k) = SizeCount(runs, k)
    /\ total = Cardinality(RFreeSet(fs, t, cs))
\* free: files used/free, sectors used/free
SetMax(S) == IF S = {} THEN 0 ELSE CHOOSE x \in S : \A y \in S : y <= x
Max2(a, b) == IF a > b THEN a ELSE b
RHighNonEmpty(fs) == SetMax({End(Flat(fs)[i]) : i \in {j \in 1..Len(Flat(fs)) : Flat(fs)[j].n > 0}})
RHighAll(fs) == SetMax({End(Flat(fs)[i]) : i \in 1..Len(Flat(fs))})
\* "one past the highest sector any file occupies (the catalogue's own sectors when there is none)".
\* Whether an empty file's start sector counts is not fixed by the statement: both readings accepted.
RUsedOK(fs, base, used) == used \in {Max2(base, RHighNonEmpty(fs)), Max2(base, RHighAll(fs))}
RFreeOK(fs, t, base, maxfiles, o) ==
    /\ o.fused = Len(Flat(fs)) /\ o.ffree = maxfiles - Len(Flat(fs))
    /\ RUsedOK(fs, base, o.sused) /\ o.sused + o.sfree = t
    /\ o.bused = 256 * o.sused /\ o.bfree = 256 * o.sfree
\* sector-map: owner of each sector: 0 = catalogue, i = file i (index in Flat), -1 = unowned  -- given as a function
ROwnerOK(fs, cs, s, who) ==
    IF s < cs THEN who = 0
    ELSE IF ROwned(fs, s) THEN who \in {i \in 1..Len(Flat(fs)) : Flat(fs)[i].start <= s /\ s < End(Flat(fs)[i])}
    ELSE who = 0 - 1

-----------------------------------------------------------------------------
(* M: cmd_space.cc as repaired *)
NE == [f \in 1..NFrag |-> NonEmpty(frags[f])]        \* catalogs after erasing empty files
MHasFiles == \E f \in 1..NFrag : Len(NE[f]) > 0
Positions == {<<c, e>> : c \in 1..NFrag, e \in 1..MaxFiles}
Exists(p) == p[2] <= Len(NE[p[1]])
Before(p, q) == p[1] < q[1] \/ (p[1] = q[1] /\ p[2] < q[2])
FirstPos == CHOOSE p \in Positions : Exists(p) /\ \A q \in Positions : (Exists(q) /\ q # p) =>
              (NE[p[1]][p[2]].start < NE[q[1]][q[2]].start \/ (NE[p[1]][p[2]].start = NE[q[1]][q[2]].start /\ Before(p, q)))
NextStart(c, e) == IF e > 1 THEN NE[c][e - 1].start
                   ELSE IF \E c2 \in (c + 1)..NFrag : Len(NE[c2]) > 0
                   THEN LET c2 == CHOOSE x \in (c + 1)..NFrag : Len(NE[x]) > 0 /\ \A y \in (c + 1)..(x - 1) : Len(NE[y]) = 0
                        IN NE[c2][Len(NE[c2])].start
                   ELSE T
Order == LET o(c) == [i \in 1..Len(NE[c]) |-> <<c, Len(NE[c]) - i + 1>>] IN IF NFrag = 1 THEN o(1) ELSE o(2) \o o(1)
InitialGap == <<CatSecs, IF MHasFiles THEN NE[FirstPos[1]][FirstPos[2]].start ELSE T>>
RECURSIVE Walk(_, _, _)
Walk(i, gaps, addedInit) ==
    IF i > Len(Order) THEN IF addedInit THEN gaps ELSE gaps \o <<InitialGap>>
    ELSE LET p == Order[i]
             doInit == MHasFiles /\ p = FirstPos /\ p[1] = 1
             g1 == IF doInit THEN gaps \o <<InitialGap>> ELSE gaps
         IN Walk(i + 1, g1 \o << <<End(NE[p[1]][p[2]]), NextStart(p[1], p[2])>> >>, addedInit \/ doInit)
MPairs == Walk(1, <<>>, FALSE)
MOutOfOrder == \E k \in 1..Len(MPairs) : MPairs[k][1] > MPairs[k][2]
MGaps == LET nz == SelectSeq(MPairs, LAMBDA g : g[2] > g[1]) IN [k \in 1..Len(nz) |-> nz[k][2] - nz[k][1]]
RECURSIVE SumSeq(_)
SumSeq(s) == IF Len(s) = 0 THEN 0 ELSE Head(s) + SumSeq(Tail(s))

\* M: Catalog::map_sectors (entries in catalogue order; insert() does not overwrite) + extract-unused's loop
MOwner(s) == IF s < CatSecs THEN 0
             ELSE IF \E i \in 1..Len(Flat(frags)) : Flat(frags)[i].n > 0 /\ Flat(frags)[i].start <= s /\ s < End(Flat(frags)[i])
             THEN CHOOSE i \in 1..Len(Flat(frags)) : /\ Flat(frags)[i].n > 0 /\ Flat(frags)[i].start <= s /\ s < End(Flat(frags)[i])
                                                      /\ \A j \in 1..(i - 1) : ~(Flat(frags)[j].n > 0 /\ Flat(frags)[j].start <= s /\ s < End(Flat(frags)[j]))
             ELSE 0 - 1
MUnusedRuns == {<<s, k>> \in (0..T) \X (1..T) :
                  /\ s + k <= T /\ (\A j \in 0..(k - 1) : MOwner(s + j) = 0 - 1)
                  /\ (s = 0 \/ MOwner(s - 1) # 0 - 1) /\ (s + k = T \/ MOwner(s + k) # 0 - 1)}
\* M: cmd_free.cc
MUsed == LET hi == SetMax({End(Flat(frags)[i]) : i \in 1..Len(Flat(frags))}) IN Max2(FreeBase, hi)

-----------------------------------------------------------------------------
(* M |= R *)
SpaceAgrees == ~MOutOfOrder /\ RSpaceOK(frags, T, CatSecs, MGaps, SumSeq(MGaps))
MapAgrees == \A s \in 0..(T - 1) : ROwnerOK(frags, CatSecs, s, MOwner(s))
UnusedAgrees == MUnusedRuns = RRuns(frags, T, CatSecs)
FreeAgrees == RUsedOK(frags, FreeBase, MUsed)
\* the commands agree with each other: space total = sectors sector-map shows unowned = T - catalogue - files
CrossAgree == SumSeq(MGaps) = Cardinality({s \in 0..(T - 1) : MOwner(s) = 0 - 1})

Emit == PrintT(<<"CASE", ToJson(frags)>>)
=============================================================================
