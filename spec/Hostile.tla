------------------------------- MODULE Hostile -------------------------------
(***************************************************************************)
(* Hostile image files (C07): for every container parser the quantities a   *)
(* header declares are related to the actual file only through classes      *)
(* (absent / zero / consistent / beyond end-of-file / maximal), and TLC      *)
(* enumerates every combination; each is built as a real file and given to  *)
(* every dfs command.  The file-driven loops are modelled and checked for   *)
(* termination: the HxC MFM track list walk (get_track_metadata).           *)
(***************************************************************************)
EXTENDS Naturals, Sequences, FiniteSets, TLC, Json
CONSTANTS Kinds

VARIABLES kind, h, pos, st         \* h: the hostile header; pos/st: the track-list walk
vars == <<kind, h, pos, st>>

Hxc == [len : {"0", "6", "18", "hdr", "list-cut", "full"}, tracks : {0, 1, 2, 65535}, sides : {0, 1, 2, 3, 255}, iface : {4, 0},
        listoff : {"0", "18", "19", "eof", "max"}, term : BOOLEAN, tsize : {"0", "ok", "past-eof", "2^31", "max"}, toff : {"ok", "eof", "max"}]
Hfe == [sig : {"v1", "v3", "bad"}, len : {"0", "100", "512", "lut-cut", "full"}, tracks : {0, 1, 2, 255}, sides : {0, 1, 2, 3, 255},
        enc : {0, 2, 1, 255}, toff : {"ok", "eof", "max"}, tlen : {"0", "ok", "odd", "max"}, tail : {"none", "opcode", "badop"}]
Mmb == [len : {"0", "100", "8191", "8192", "slot-cut", "full"}, status : {0, 15, 240, 255, 1, 128}]
Dump == [nsec : {0, 1, 2, 3, 4, 16, 17, 18, 400}, count : {0, 5, 8, 248, 255}, total : {0, 1, 2, 3, 4, 400, 1023}, b6 : {0, 4, 8, 12, 192},
         aa : BOOLEAN, opus : {"none", "ok", "track>=cyl", "descending", "duplicate", "total-mismatch", "vol-cat-bad", "spt-10"}]
HeaderOf(k) == CASE k = "hxc" -> Hxc [] k = "hfe" -> Hfe [] k = "mmb" -> Mmb [] OTHER -> Dump
Init == kind \in Kinds /\ h \in HeaderOf(kind) /\ pos = 0 /\ st = "walk"

\* the HxC track-list walk over a file of `n` list records: stops at the record keyed (tracks-1, sides-1) or when a
\* record cannot be read completely (repaired: used to dereference the short read and loop)
Records == IF kind # "hxc" THEN 0 ELSE IF h.len \in {"0", "6", "18", "hdr"} THEN 0 ELSE IF h.len = "list-cut" THEN 1 ELSE 2
Walk == /\ kind = "hxc" /\ st = "walk"
        /\ IF pos >= Records THEN st' = "short-read-error" /\ pos' = pos
           ELSE IF h.term /\ pos = Records - 1 /\ h.tracks = 1 /\ h.sides = 1 THEN st' = "found" /\ pos' = pos
           ELSE pos' = pos + 1 /\ st' = st
        /\ UNCHANGED <<kind, h>>
Skip == kind # "hxc" /\ st = "walk" /\ st' = "n/a" /\ UNCHANGED <<kind, h, pos>>
Next == Walk \/ Skip
Spec == Init /\ [][Next]_vars /\ WF_vars(Next)
WalkTerminates == <>(st # "walk")
Emit == st # "walk" => PrintT(<<"CASE", ToJson([kind |-> kind, h |-> h])>>)
=============================================================================
