------------------------------- MODULE Extract -------------------------------
(***************************************************************************)
(* One run of extract-files over a whole catalogue (C12, with C11's        *)
(* completeness as a side condition).                                      *)
(* The catalogue is a sequence of fragments (Acorn/Opus/HDFS: one; Watford: *)
(* two), each a sequence of entries.  An entry is abstracted to its class:  *)
(*   "in"   the path built from it resolves to a direct child of the        *)
(*          destination (HostFs.tla: MCreates /\ parent = Dest)             *)
(*   "out"  built unchecked, the path would resolve outside the destination *)
(*          (HostFs.tla: EscapesUnchecked) - its name contains a '/'        *)
(*   "nil"  the name contains a '/' but no file could be created from it    *)
(* M (cmd_extract_files.cc as repaired): visit every entry of every         *)
(*   fragment in order; an entry whose base name contains '/' ends the run  *)
(*   with a diagnostic and a failure status; otherwise body and .inf are    *)
(*   created.                                                               *)
(* R: nothing is ever created from an "out" entry (RInside); a run that     *)
(*   reports success created every entry (RComplete).                       *)
(***************************************************************************)
EXTENDS Naturals, Sequences, FiniteSets, TLC, Json
CONSTANTS MaxFrags, MaxPerFrag, Classes
VARIABLES cat,        \* the case: sequence of fragments
          f, i,       \* loop position
          created,    \* set of <<fragment, index>> extracted so far
          rc          \* 99 = running
vars == <<cat, f, i, created, rc>>
Frags == UNION {[1..k -> Classes] : k \in 0..MaxPerFrag}
Init == /\ cat \in UNION {[1..k -> Frags] : k \in 1..MaxFrags}
        /\ f = 1 /\ i = 1 /\ created = {} /\ rc = 99
HasSlashC(c) == c \in {"out", "nil"}
Step == /\ rc = 99
        /\ IF f > Len(cat) THEN rc' = 0 /\ UNCHANGED <<f, i, created>>
           ELSE IF i > Len(cat[f]) THEN f' = f + 1 /\ i' = 1 /\ UNCHANGED <<created, rc>>
           ELSE IF HasSlashC(cat[f][i]) THEN rc' = 1 /\ UNCHANGED <<f, i, created>>
           ELSE created' = created \cup {<<f, i>>} /\ i' = i + 1 /\ UNCHANGED <<f, rc>>
        /\ UNCHANGED cat
Next == Step
Spec == Init /\ [][Next]_vars
All == {<<a, b>> \in (1..MaxFrags) \X (1..MaxPerFrag) : a <= Len(cat) /\ b <= Len(cat[a])}
(* R *)
RInside(c, made) == \A p \in made : c[p[1]][p[2]] # "out"
RComplete(c, made, status) == status = 0 => made = {<<a, b>> \in (1..MaxFrags) \X (1..MaxPerFrag) : a <= Len(c) /\ b <= Len(c[a])}
Inside == RInside(cat, created)
Complete == RComplete(cat, created, rc)
\* the positions of the first entry with a '/' (what a correct run stops at), for the replay's expectations
Emit == (rc # 99) => PrintT(<<"CASE", ToJson([cat |-> cat, rc |-> rc, created |-> {[f |-> p[1], i |-> p[2]] : p \in created}])>>)
=============================================================================
