---------------------------- MODULE TraceIdentify ----------------------------
(* Judges identification observations of the real dfs: the variant it treated each disc as, the geometry it  *)
(* chose, and (2-run property) that discs which differ only in file bodies give the same listing.            *)
EXTENDS Identify, IOUtils, Integers
TraceLog == ndJsonDeserialize(IOEnv.TRACE)
VARIABLES l, bad, seen
tvars == <<vars, l, bad, seen>>
Ev == TraceLog[l]

\* what the listing may depend on: the variant the markers define and the catalogue itself -- never the bodies
\* (sectors 2/3 are catalogue data on Watford and Opus discs, so what is written there belongs to the key)
Key(x) == <<RVariant(x), x.start, x.flen0, x.total, x.hdfs, x.cat0,
            IF RVariant(x) \in {"OPUS", "WDFS"} THEN x.vols ELSE "-",
            IF RVariant(x) = "OPUS" THEN x.aa2 ELSE FALSE>>
VariantOK(ev) == ev.variant = RVariant(ev.d)
GeomOK(ev) == RVariant(ev.d) = "NONE" \/ (ev.cyl * ev.spt >= ev.cattotal)
KeyE(ev) == <<Key(ev.d), ev.g>>        \* g: image group (extension, size) -- listings are compared within a group
ListingOK(ev) == KeyE(ev) \in DOMAIN seen => seen[KeyE(ev)] = ev.listing
Judge(ev) == VariantOK(ev) /\ GeomOK(ev) /\ ListingOK(ev)
TInit == d = [hdfs |-> FALSE] /\ ext = "" /\ l = 1 /\ bad = {} /\ seen = <<>>
TNext == /\ l <= Len(TraceLog) /\ l' = l + 1
         /\ bad' = IF Judge(Ev) THEN bad ELSE bad \cup {l}
         /\ seen' = IF KeyE(Ev) \in DOMAIN seen THEN seen ELSE [k \in DOMAIN seen \cup {KeyE(Ev)} |-> IF k = KeyE(Ev) THEN Ev.listing ELSE seen[k]]
         /\ UNCHANGED vars
TSpec == TInit /\ [][TNext]_tvars
Final == (l = Len(TraceLog) + 1) => PrintT(<<"VERDICT", ToJson([bad |-> bad, n |-> Len(TraceLog)])>>)
Accepted == TLCGet("stats").diameter - 1 = Len(TraceLog)
=============================================================================
