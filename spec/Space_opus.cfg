INIT Init
NEXT Next
CONSTANTS T = 9
 NFrag = 1
 MaxFiles = 3
 MaxLen = 2
 CatSecs = 0
 FreeBase = 2
INVARIANT SpaceAgrees
INVARIANT MapAgrees
INVARIANT UnusedAgrees
INVARIANT FreeAgrees
INVARIANT CrossAgree
INVARIANT Emit
CHECK_DEADLOCK FALSE
