---------------------------- MODULE TraceExtract ----------------------------
(* Judges whole extract-files runs over catalogues built from Extract.tla's cases: ev.cat is the catalogue as     *)
(* classes per fragment, ev.made the entries <<fragment, index>> whose file (at the place unchecked               *)
(* concatenation would put it) exists afterwards, ev.rc the exit status.                                         *)
EXTENDS Extract, IOUtils, Integers
TraceLog == ndJsonDeserialize(IOEnv.TRACE)
VARIABLES l, bad
tvars == <<vars, l, bad>>
Ev == TraceLog[l]
Made(ev) == {<<ev.made[k].f, ev.made[k].i>> : k \in 1..Len(ev.made)}
\* C12 proper: nothing outside the destination, nothing else touched.  (Completeness on success is C11's; it is
\* evaluated too but reported separately by the check: `incomplete`.)
Judge(ev) == /\ RInside(ev.cat, Made(ev))
             /\ ev.stray = 0 /\ ev.image_same = 1
TInit == cat = <<>> /\ f = 1 /\ i = 1 /\ created = {} /\ rc = 99 /\ l = 1 /\ bad = {}
TNext == /\ l <= Len(TraceLog) /\ l' = l + 1
         /\ bad' = IF Judge(Ev) THEN bad ELSE bad \cup {l}
         /\ UNCHANGED vars
TSpec == TInit /\ [][TNext]_tvars
Incomplete == {k \in 1..Len(TraceLog) : ~RComplete(TraceLog[k].cat, Made(TraceLog[k]), TraceLog[k].rc)}
Final == (l = Len(TraceLog) + 1) => PrintT(<<"VERDICT", ToJson([bad |-> bad, n |-> Len(TraceLog), incomplete |-> Incomplete])>>)
Accepted == TLCGet("stats").diameter - 1 = Len(TraceLog)
=============================================================================
