SPECIFICATION TSpec
CONSTANTS MaxOpts = 3
 OptTokens <- TokensSmall
INVARIANT Final
POSTCONDITION Accepted
CHECK_DEADLOCK FALSE
