SPECIFICATION TSpec
CONSTANTS Widths = {1, 20, 39, 40, 41, 79, 80, 132}
 MaxCur = 9
 MaxOther = 9
INVARIANT Final
POSTCONDITION Accepted
CHECK_DEADLOCK FALSE
