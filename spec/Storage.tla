------------------------------ MODULE Storage ------------------------------
(***************************************************************************)
(* Drive-number allocation of dfs (dfs/storage.cc, dfs/main.cc).  C16.     *)
(*                                                                         *)
(* R (requirement, from the property statement and doc/dfs.1): operators   *)
(*   RInjective, RAppendOnly, RFirst, RPhysical, RAttach.                  *)
(* M (implementation-shaped): SetPolicy / Attach, with PhysSlot modelling  *)
(*   check_sequence_fits() and FirstFree modelling the FIRST loop of       *)
(*   StorageConfiguration::connect_drives().                               *)
(* TLC checks M |= R for every history within the constants; the same R    *)
(* operators are re-used by TraceStorage.tla to judge what the real code   *)
(* did.                                                                    *)
(***************************************************************************)
EXTENDS Naturals, Sequences, FiniteSets, TLC, Json

CONSTANTS MaxImages,   \* number of --file options in a history
          MaxDrive,    \* drive numbers considered
          Kinds        \* side counts of images: 1 = ssd/hfe, 2 = dsd, 3.. = MMB-like

VARIABLES drives,   \* drives_ : drive number -> [img, side]  (DOMAIN = occupied numbers)
          policy,   \* how_to_allocate_drives in main()
          nimg,     \* number of images attached so far
          hist      \* the option history (this *is* the behaviour that gets replayed)

vars == <<drives, policy, nimg, hist>>

Opp(d) == IF d % 4 \in {0, 1} THEN d + 2 ELSE d - 2      \* SurfaceSelector::opposite_surface
Dom(f) == DOMAIN f

-----------------------------------------------------------------------------
(* R: requirement-level relations over one attach step old -> new.          *)

RInjectiveOn(f) == \A d1, d2 \in Dom(f) : d1 # d2 => f[d1] # f[d2]

RAppendOnlyRel(old, new) == \A d \in Dom(old) : d \in Dom(new) /\ new[d] = old[d]

NewSet(old, new) == Dom(new) \ Dom(old)

\* the surfaces of image i sit at exactly the numbers in D, side numbers 0..k-1 in increasing drive order
SidesInOrder(new, D, i, k) ==
    /\ Cardinality(D) = k
    /\ \A d \in D : new[d].img = i
    /\ \A d \in D : new[d].side = Cardinality({e \in D : e < d})

\* --drive-first: the k lowest free numbers
RFirst(old, new, i, k) ==
    LET D == NewSet(old, new) IN
    /\ SidesInOrder(new, D, i, k)
    /\ \A d \in D : \A f \in 0..d : (f \notin Dom(old)) => f \in D

\* --drive-physical: n, n+2, ... ; never the opposite side of a drive another image occupies
RPhysical(old, new, i, k) ==
    LET D == NewSet(old, new) IN
    /\ SidesInOrder(new, D, i, k)
    /\ \E n \in D : D = {n + 2 * j : j \in 0..(k - 1)}
    /\ \A d \in D : Opp(d) \notin Dom(old)

RAttach(old, new, pol, i, k) ==
    /\ RAppendOnlyRel(old, new)
    /\ RInjectiveOn(new)
    /\ IF pol = "FIRST" THEN RFirst(old, new, i, k) ELSE RPhysical(old, new, i, k)

-----------------------------------------------------------------------------
(* M: what the code does.                                                   *)

Occ(d) == d \in Dom(drives)

\* check_sequence_fits(i, to_do, occupied)
Fits(n, k) == /\ ~Occ(n)
              /\ ~Occ(Opp(n))
              /\ \A j \in 0..(k - 1) : ~Occ(n + 2 * j)

PhysSlot(k) == IF \E n \in 0..MaxDrive : Fits(n, k)
               THEN CHOOSE n \in 0..MaxDrive : Fits(n, k) /\ \A m \in 0..(n - 1) : ~Fits(m, k)
               ELSE MaxDrive + 1

\* the FIRST loop: n keeps its value between surfaces, so surface j+1 goes to the lowest free number >= the
\* one surface j got (which by then is occupied)
RECURSIVE FirstFree(_, _, _)
FirstFree(occ, from, k) ==
    IF k = 0 THEN <<>>
    ELSE LET n == CHOOSE x \in from..(MaxDrive + 600) : x \notin occ /\ \A y \in from..(x - 1) : y \in occ
         IN <<n>> \o FirstFree(occ \cup {n}, n, k - 1)

Extend(f, ds, i) == [d \in Dom(f) \cup {ds[j] : j \in 1..Len(ds)} |->
                       IF d \in Dom(f) THEN f[d]
                       ELSE [img |-> i, side |-> (CHOOSE j \in 1..Len(ds) : ds[j] = d) - 1]]

Slots(k) == IF policy = "PHYSICAL"
            THEN [j \in 1..k |-> PhysSlot(k) + 2 * (j - 1)]
            ELSE FirstFree(Dom(drives), 0, k)

Init == drives = <<>> /\ policy = "PHYSICAL" /\ nimg = 0 /\ hist = <<>>

SetPolicy(p) == /\ policy # p
                /\ policy' = p
                /\ hist' = Append(hist, [a |-> "policy", p |-> p])
                /\ UNCHANGED <<drives, nimg>>

Attach(k) == /\ nimg < MaxImages
             /\ LET ds == Slots(k) IN
                /\ \A j \in 1..k : ds[j] <= MaxDrive
                /\ drives' = Extend(drives, ds, nimg)
                /\ hist' = Append(hist, [a |-> "attach", k |-> k, ds |-> ds])
             /\ nimg' = nimg + 1
             /\ UNCHANGED policy

\* ---- block reads through the per-drive sector cache (CachedDevice: the first CacheSize sectors are kept once read)
\* cache: drive -> set of cached sector numbers; the value cached for (d, s) is always what the surface returned for s,
\* which is modelled by the identity [img, side, sector] of the data
CacheSize == 4
Underlying(d, sec) == [img |-> drives[d].img, side |-> drives[d].side, sec |-> sec]
MRead(d, sec) == IF d \notin Dom(drives) THEN [ok |-> FALSE] ELSE [ok |-> TRUE, data |-> Underlying(d, sec)]
\* R for reads: exactly the addressed surface's sector, whatever was read before
RReadBlock(d, sec, res) == IF d \in Dom(drives) THEN res.ok /\ res.data = [img |-> drives[d].img, side |-> drives[d].side, sec |-> sec]
                           ELSE ~res.ok
Next == (\E p \in {"PHYSICAL", "FIRST"} : SetPolicy(p)) \/ (\E k \in Kinds : Attach(k))
Spec == Init /\ [][Next]_vars

-----------------------------------------------------------------------------
(* M |= R                                                                   *)
Injective  == RInjectiveOn(drives)
AppendOnly == [][RAppendOnlyRel(drives, drives')]_vars
AttachMeetsR == [][nimg' = nimg + 1 =>
                     LET k == Cardinality(NewSet(drives, drives')) IN RAttach(drives, drives', policy, nimg, k)]_vars
\* a two-sided image occupies n and n+2 under the physical policy (stated separately because it is in the statement)
TwoSidedPhysical == [][(nimg' = nimg + 1 /\ policy = "PHYSICAL" /\ Cardinality(NewSet(drives, drives')) = 2) =>
                         \E n \in NewSet(drives, drives') : NewSet(drives, drives') = {n, n + 2}]_vars

\* no consecutive policy switches needed beyond one; bound the history length
Bound == Len(hist) <= 2 * MaxImages
NoDoubleSwitch == Len(hist) < 2 \/ ~(hist[Len(hist)].a = "policy" /\ hist[Len(hist) - 1].a = "policy")

ReadsAddressedDrive == \A d \in 0..(MaxDrive + 1), sec \in 0..(CacheSize + 1) : RReadBlock(d, sec, MRead(d, sec))
Emit == (nimg = MaxImages) => PrintT(<<"CASE", ToJson(hist)>>)
=============================================================================
