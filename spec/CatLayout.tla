------------------------------ MODULE CatLayout ------------------------------
(***************************************************************************)
(* The column layout of `cat` (growth beyond the listed properties; used by *)
(* C18's presentation part).                                               *)
(* R (doc/dfs.1, cat: "number of output columns varies with the user        *)
(*    interface in effect and the environment"; cmd_cat.cc's table):        *)
(*    Acorn / Opus / default: 2 columns, 1 when the screen is narrower than *)
(*    40; Watford: 4 columns, 2 below 80, 1 below 40.  Files of the current *)
(*    directory come first, then an empty line, then the others; every line *)
(*    is full except the last of each group.                                *)
(* M: the next_column()/next_line() cursor machine of cmd_cat.cc with       *)
(*    20-character cells.                                                   *)
(***************************************************************************)
EXTENDS Naturals, Sequences, FiniteSets, TLC, Json
CONSTANTS Widths, MaxCur, MaxOther
VARIABLES ui, width, ncur, nother
vars == <<ui, width, ncur, nother>>

RCols(u, w) == IF u = "watford" THEN (IF w < 40 THEN 1 ELSE IF w < 80 THEN 2 ELSE 4)
               ELSE (IF w < 40 THEN 1 ELSE 2)
\* lines of one group of n files in c columns: n \div c full lines and a last partial one
RGroup(n, c) == [i \in 1..((n + c - 1) \div c) |-> IF i * c <= n THEN c ELSE n - (i - 1) * c]
\* the list region: current-directory group, then (if there are other files) an empty line (0) and the other group
RLines(u, w, nc, no) == RGroup(nc, RCols(u, w)) \o (IF no > 0 THEN <<0>> \o RGroup(no, RCols(u, w)) ELSE <<>>)

(* M: replay of the loop over sorted entries; state = (current_col, lines so far, count on the open line) *)
RMargin(u, w) == RCols(u, w) * 20
RECURSIVE MEmit(_, _, _, _, _, _, _)
MEmit(k, total, nc, rm, col, lines, open) ==
    \* k: index of the next entry (1..total); open: entries on the line being built
    IF k > total THEN (IF open > 0 THEN Append(lines, open) ELSE lines)
    ELSE LET startsOther == (k = nc + 1)                                      \* first entry outside the current directory
             \* "if (!printed_gap) { if (current_column > 0) next_line; next_line; first = true }"
             afterGap == IF startsOther THEN (IF open > 0 THEN Append(Append(lines, open), 0) ELSE Append(lines, 0)) ELSE lines
             first == (k = 1) \/ startsOther
             \* next_column(): ++current_col; nextpos = current_col * 20; wrap when nextpos >= rmargin
             col1 == IF first THEN 0 ELSE col + 1
             wraps == ~first /\ (col1 * 20 >= rm)
         IN IF startsOther THEN MEmit(k + 1, total, nc, rm, 0, afterGap, 1)
            ELSE IF first THEN MEmit(k + 1, total, nc, rm, 0, lines, 1)
            ELSE IF wraps THEN MEmit(k + 1, total, nc, rm, 0, Append(lines, open), 1)
            ELSE MEmit(k + 1, total, nc, rm, col1, lines, open + 1)
MLines(u, w, nc, no) == MEmit(1, nc + no, nc, RMargin(u, w), 0, <<>>, 0)

Init == ui \in {"acorn", "watford", "opus"} /\ width \in Widths /\ ncur \in 0..MaxCur /\ nother \in 0..MaxOther
Next == UNCHANGED vars
LayoutAgrees == MLines(ui, width, ncur, nother) = RLines(ui, width, ncur, nother)
=============================================================================
