SPECIFICATION Spec
CONSTANTS MTab <- TabSmall
 MLe = TRUE
 MListo = 7
 Alphabet = {34, 141, 227, 237, 65, 58}
 MaxLen = 5
 Prefixes <- LePrefix5
 Suffixes <- LeSuffixEnd
INVARIANT MeetsR
INVARIANT Emit
CHECK_DEADLOCK FALSE
