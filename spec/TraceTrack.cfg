SPECIFICATION TSpec
CONSTANTS NSec = 3
 Enc = "FM"
 Faults = {"ok"}
INVARIANT Final
POSTCONDITION Accepted
CHECK_DEADLOCK FALSE
