INIT Init
NEXT Next
CONSTANTS N = 4
 TrackVals = {0, 1, 2, 40, 79, 80}
 Tracks = 80
 Spt = 18
INVARIANT ExtentsMeetR
INVARIANT Disjoint
INVARIANT Emit
CHECK_DEADLOCK FALSE
