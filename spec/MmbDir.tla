------------------------------- MODULE MmbDir -------------------------------
(***************************************************************************)
(* The MMB directory scan (dfs/img_mmb.cc, MmbFile::connect_drives): the    *)
(* 8192-byte directory is read sector by sector, 16 entries of 16 bytes per *)
(* sector (the first entry of the first sector is the file header), and a   *)
(* slot is attached as a formatted drive, or reported as unformatted,       *)
(* according to its own status byte (doc/mmb.5).  C04.                      *)
(* M: a scan with no state carried from entry to entry.                     *)
(* R: whether slot i is present depends on status[i] alone.                 *)
(***************************************************************************)
EXTENDS Naturals, Sequences, FiniteSets, TLC, Json
CONSTANTS N, StatusBytes
VARIABLES dirv, k, present
vars == <<dirv, k, present>>
RSlotPresent(st) == st \in {0, 15}
MSlotPresent(st) == st = 0 \/ st = 15
Init == dirv \in [1..N -> StatusBytes] /\ k = 1 /\ present = {}
Scan == /\ k <= N
        /\ present' = IF MSlotPresent(dirv[k]) THEN present \cup {k} ELSE present
        /\ k' = k + 1 /\ UNCHANGED dirv
Next == Scan
Spec == Init /\ [][Next]_vars
RPresentSet(d) == {j \in 1..Len(d) : RSlotPresent(d[j])}
OwnStatusOnly == k > N => present = RPresentSet(dirv)
Emit == k > N => PrintT(<<"CASE", ToJson([dir |-> dirv, present |-> present])>>)
=============================================================================
