SPECIFICATION TSpec
CONSTANTS MaxSkip = 3
 MaxTake = 3
 MaxLeave = 3
 MaxTotal = 7
 MaxSector = 8
INVARIANT Final
POSTCONDITION Accepted
CHECK_DEADLOCK FALSE
