SPECIFICATION Spec
CONSTANTS MaxChunks = 4
 ChunkSizes = {0, 1, 2, 5}
 Caps = {1, 3, 100}
 Profiles = {"flush+test", "c:checked"}
INVARIANT ExitZeroImpliesComplete
CHECK_DEADLOCK FALSE
