SPECIFICATION Spec
CONSTANTS MaxChunks = 4
 ChunkSizes = {1, 2, 5}
 Caps = {1, 3, 100}
 Profiles = {"flush+test"}
INVARIANT ExitZeroImpliesComplete
CHECK_DEADLOCK FALSE
