SPECIFICATION FairSpec
CONSTANTS MaxMembers = 3
 MaxCin = 5
 Ratios = {0, 1, 3}
 InBuf = 2
 OutBuf = 3
INVARIANT RRejectsDamaged
INVARIANT RAccepts
INVARIANT RAcceptsSound
INVARIANT RReadBack
PROPERTY Terminates
CHECK_DEADLOCK FALSE
