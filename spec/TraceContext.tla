---------------------------- MODULE TraceContext ----------------------------
(* Judges real dfs runs whose global options are Context.tla's sequences: the file `F` exists in every (drive, volume,       *)
(* directory) with content naming its place, so what `type F` prints and what `info *` lists tell which context was in      *)
(* effect.  ev.obs / ev.listed = [drive, vol, dir] decoded from the output.  Drive 0 is an Opus disc (no letter = volume A). *)
EXTENDS Context, IOUtils, Integers
TraceLog == ndJsonDeserialize(IOEnv.TRACE)
VARIABLES l, bad
tvars == <<vars, l, bad>>
Ev == TraceLog[l]
Norm(e) == [drive |-> e.drive, vol |-> IF e.drive = 0 /\ e.vol = "" THEN "A" ELSE e.vol, dir |-> e.dir]
Judge(ev) == /\ ev.rc = 0
             /\ Norm(ev.obs) = Norm(REffective(ev.opts))
             /\ Norm(ev.listed) = Norm(REffective(ev.opts))
\* the same run seen from inside (hook events): which drive select_drive was asked for and which volume the body reads went through.
\* The test discs: drive 0 = Opus with volume A at sector 18 and B at sector 558; drive 1 = Acorn DFS (one volume at 0).
VolOrigin(e) == IF e.drive = 1 THEN 0 ELSE IF e.vol = "B" THEN 558 ELSE 18
SessionOK(ev) == LET eff == Norm(REffective(ev.opts)) IN
                 /\ Len(ev.selects) > 0 /\ \A k \in 1..Len(ev.selects) : ev.selects[k] = eff.drive
                 /\ Len(ev.origins) > 0 /\ \A k \in 1..Len(ev.origins) : ev.origins[k] = VolOrigin(eff)
TInit == opts = <<>> /\ i = 1 /\ drive = 0 /\ vol = "" /\ dir = 36 /\ ui = "default" /\ verbose = FALSE /\ showcfg = FALSE /\ l = 1 /\ bad = {}
TNext == /\ l <= Len(TraceLog) /\ l' = l + 1
         /\ bad' = IF (IF Ev.e = "session" THEN SessionOK(Ev) ELSE Judge(Ev)) THEN bad ELSE bad \cup {l}
         /\ UNCHANGED vars
TSpec == TInit /\ [][TNext]_tvars
Final == (l = Len(TraceLog) + 1) => PrintT(<<"VERDICT", ToJson([bad |-> bad, n |-> Len(TraceLog)])>>)
Accepted == TLCGet("stats").diameter - 1 = Len(TraceLog)
=============================================================================
