-------------------------------- MODULE Basic --------------------------------
(***************************************************************************)
(* bbcbasic_to_text (C03, C08, C09).                                       *)
(*                                                                         *)
(* A token table `tab` is a record of four functions 0..255 -> entry        *)
(* (base, c6, c7, c8); an entry is [k, s] with k one of                     *)
(*   "self" (byte represents itself)   "kw" (keyword, text s)              *)
(*   "inv" (unassigned)                "ln" (0x8D line-number reference)   *)
(*   "c6" "c7" "c8" (extension introducer)   "pdp" (PDP11 0xC8)            *)
(*   "fv" (Windows fast variable)                                          *)
(*                                                                         *)
(* R: RProgram -- the listing doc/bbcbasic.5 and doc/bbcbasic_to_text.1     *)
(*    define, as a total function from the input bytes to                   *)
(*    [st, out]: st = "ok" (well-formed: out is the listing),               *)
(*    "bad" (ill-formed/truncated: must be rejected; out = what a           *)
(*    line-by-line lister prints before the offending line) or "unspec"     *)
(*    (inputs the documents leave open).                                    *)
(* M: the reader loops of lines.c (decode_big_endian_program /              *)
(*    decode_little_endian_program, decode_line, handle_token) as a step    *)
(*    machine over a lazily read input with the static line buffer.         *)
(***************************************************************************)
EXTENDS Naturals, Sequences, FiniteSets, TLC, Json

CR == 13
QUOTE == 34

-----------------------------------------------------------------------------
(* helpers *)
RECURSIVE Dec(_)
Dec(n) == IF n < 10 THEN <<48 + n>> ELSE Dec(n \div 10) \o <<48 + (n % 10)>>
Spaces(n) == [i \in 1..n |-> 32]
Pad5(s) == IF Len(s) >= 5 THEN s ELSE Spaces(5 - Len(s)) \o s
Bit(x, k) == (x \div (2 ^ k)) % 2
Xor8(a, b) == LET f[i \in 0..8] == IF i = 8 THEN 0 ELSE (IF Bit(a, i) # Bit(b, i) THEN 2 ^ i ELSE 0) + f[i + 1] IN f[0]
\* doc/bbcbasic.5 LINE NUMBERS:  (((b3 ^ (b1 << 4)) & 0xFF) << 8) | (b2 ^ ((b1 << 2) & 0xC0))
Target(b1, b2, b3) == 256 * Xor8(b3, (b1 * 16) % 256) + Xor8(b2, ((b1 * 4) % 256) - ((b1 * 4) % 64))
IsKw(e, text) == e.k = "kw" /\ e.s = text
FOR == <<70, 79, 82>>
NEXT == <<78, 69, 88, 84>>
REPEAT == <<82, 69, 80, 69, 65, 84>>
UNTIL == <<85, 78, 84, 73, 76>>
LOAD == <<76, 79, 65, 68>>
QUIT == <<81, 85, 73, 84>>

-----------------------------------------------------------------------------
(* R: one line body -> [st, out, nfor, nnext, nrep, nunt]  (loop keywords counted outside quotes only) *)
RECURSIVE RBody(_, _, _, _)
RBody(tab, b, i, inq) ==
    IF i > Len(b) THEN [st |-> "ok", out |-> <<>>, f |-> 0, n |-> 0, r |-> 0, u |-> 0]
    ELSE LET c == b[i] IN
    IF c = 0 THEN [st |-> "bad", out |-> <<>>, f |-> 0, n |-> 0, r |-> 0, u |-> 0]          \* 0x00 is never valid
    ELSE IF inq THEN
        LET t == RBody(tab, b, i + 1, c # QUOTE) IN [t EXCEPT !.out = <<c>> \o @]
    ELSE LET e == tab.base[c] IN
      CASE e.k = "self" -> LET t == RBody(tab, b, i + 1, c = QUOTE) IN [t EXCEPT !.out = <<c>> \o @]
        [] e.k = "kw" -> LET t == RBody(tab, b, i + 1, FALSE) IN
                         [t EXCEPT !.out = e.s \o @,
                                   !.f = @ + (IF e.s = FOR THEN 1 ELSE 0), !.n = @ + (IF e.s = NEXT THEN 1 ELSE 0),
                                   !.r = @ + (IF e.s = REPEAT THEN 1 ELSE 0), !.u = @ + (IF e.s = UNTIL THEN 1 ELSE 0)]
        [] e.k = "ln" -> IF Len(b) - i < 3 THEN [st |-> "bad", out |-> <<>>, f |-> 0, n |-> 0, r |-> 0, u |-> 0]
                         \* the three bytes of a reference are 0x40..0x7F in every program BASIC writes; when one of them is a quote
                         \* or a token value, what it does to the string state and the loop count is not specified
                         ELSE IF \E k \in 1..3 : b[i + k] = QUOTE \/ b[i + k] >= 128
                              THEN [st |-> "unspec", out |-> <<>>, f |-> 0, n |-> 0, r |-> 0, u |-> 0]
                         ELSE LET t == RBody(tab, b, i + 4, FALSE) IN [t EXCEPT !.out = Dec(Target(b[i + 1], b[i + 2], b[i + 3])) \o @]
        [] e.k \in {"c6", "c7", "c8"} ->
                         IF i = Len(b) THEN [st |-> "bad", out |-> <<>>, f |-> 0, n |-> 0, r |-> 0, u |-> 0]
                         ELSE LET x == (IF e.k = "c6" THEN tab.c6 ELSE IF e.k = "c7" THEN tab.c7 ELSE tab.c8)[b[i + 1]] IN
                              IF x.k # "kw" THEN [st |-> "bad", out |-> <<>>, f |-> 0, n |-> 0, r |-> 0, u |-> 0]
                              ELSE LET t == RBody(tab, b, i + 2, FALSE) IN [t EXCEPT !.out = x.s \o @]
        [] e.k = "pdp" -> IF i = Len(b) THEN [st |-> "unspec", out |-> <<>>, f |-> 0, n |-> 0, r |-> 0, u |-> 0]
                          ELSE IF b[i + 1] = 152 THEN LET t == RBody(tab, b, i + 2, FALSE) IN [t EXCEPT !.out = QUIT \o @]
                          ELSE LET t == RBody(tab, b, i + 1, FALSE) IN [t EXCEPT !.out = LOAD \o @]
        [] OTHER -> [st |-> "bad", out |-> <<>>, f |-> 0, n |-> 0, r |-> 0, u |-> 0]             \* "inv", "fv"

\* one whole line: header + body + newline, threading the indentation
RLine(tab, listo, num, body, indent) ==
    LET t == RBody(tab, body, 1, FALSE)
        ind == indent - (IF Bit(listo, 1) = 1 THEN 2 * t.n ELSE 0) - (IF Bit(listo, 2) = 1 THEN 2 * t.u ELSE 0)
        shown == IF ind > 0 THEN ind ELSE 0
        hdr == (IF num = 0 THEN Spaces(5) ELSE Pad5(Dec(num))) \o (IF Bit(listo, 0) = 1 THEN <<32>> ELSE <<>>) \o Spaces(shown)
    IN [st |-> t.st, out |-> hdr \o t.out \o <<10>>,
        \* the statement fixes indentation for properly nested loops only: the depth after a line must not be
        \* negative (a complete FOR ... NEXT on one line is properly nested although NEXT is counted first)
        negative |-> ind + (IF Bit(listo, 1) = 1 THEN 2 * t.f ELSE 0) + (IF Bit(listo, 2) = 1 THEN 2 * t.r ELSE 0) < 0,
        indent |-> ind + (IF Bit(listo, 1) = 1 THEN 2 * t.f ELSE 0) + (IF Bit(listo, 2) = 1 THEN 2 * t.r ELSE 0)]

\* big-endian:  0D hi lo len body...   end: 0D FF <EOF>
RECURSIVE RBig(_, _, _, _, _)
RBig(tab, listo, inp, i, indent) ==
    IF i > Len(inp) THEN [st |-> IF i = 1 THEN "unspec" ELSE "bad", out |-> <<>>]       \* empty input: unspecified; else: no end marker
    ELSE IF inp[i] # CR THEN [st |-> "bad", out |-> <<>>]
    ELSE IF i + 1 > Len(inp) THEN [st |-> "bad", out |-> <<>>]
    ELSE IF inp[i + 1] = 255 THEN (IF i + 1 = Len(inp) THEN [st |-> "ok", out |-> <<>>] ELSE [st |-> "unspec", out |-> <<>>])
    ELSE IF i + 3 > Len(inp) THEN [st |-> "bad", out |-> <<>>]
    ELSE LET num == 256 * inp[i + 1] + inp[i + 2]
             len == inp[i + 3] IN
         IF len < 4 THEN [st |-> "bad", out |-> <<>>]
         ELSE IF i + len - 1 > Len(inp) THEN [st |-> "bad", out |-> <<>>]
         ELSE LET ln == RLine(tab, listo, num, SubSeq(inp, i + 4, i + len - 1), indent) IN
              IF ln.st # "ok" THEN [st |-> ln.st, out |-> <<>>]
              ELSE LET rest == RBig(tab, listo, inp, i + len, ln.indent) IN
                   [st |-> IF ln.negative /\ rest.st = "ok" THEN "unspec" ELSE rest.st, out |-> ln.out \o rest.out]

\* little-endian:  len lo hi body... 0D     end: 00 FF FF <EOF>
RECURSIVE RLittle(_, _, _, _, _)
RLittle(tab, listo, inp, i, indent) ==
    IF i > Len(inp) THEN [st |-> IF i = 1 THEN "unspec" ELSE "bad", out |-> <<>>]
    ELSE LET len == inp[i] IN
    IF len = 0 THEN (IF i + 2 > Len(inp) \/ inp[i + 1] # 255 \/ inp[i + 2] # 255 THEN [st |-> "bad", out |-> <<>>]
                     ELSE IF i + 2 = Len(inp) THEN [st |-> "ok", out |-> <<>>] ELSE [st |-> "unspec", out |-> <<>>])
    ELSE IF len < 3 THEN [st |-> "bad", out |-> <<>>]
    ELSE IF i + 2 > Len(inp) THEN [st |-> "bad", out |-> <<>>]
    ELSE IF len = 3 THEN                                                 \* a line without even its terminator: how it is listed is
         LET rest == RLittle(tab, listo, inp, i + 3, indent) IN          \* not specified, but what follows it still has to be a program
         [st |-> IF rest.st = "ok" THEN "unspec" ELSE rest.st, out |-> <<>>]
    ELSE IF i + len - 1 > Len(inp) THEN [st |-> "bad", out |-> <<>>]
    ELSE IF inp[i + len - 1] # CR THEN [st |-> "bad", out |-> <<>>]
    ELSE LET num == inp[i + 1] + 256 * inp[i + 2]
             ln == RLine(tab, listo, num, SubSeq(inp, i + 3, i + len - 2), indent) IN
         IF ln.st # "ok" THEN [st |-> ln.st, out |-> <<>>]
         ELSE LET rest == RLittle(tab, listo, inp, i + len, ln.indent) IN
              [st |-> IF ln.negative /\ rest.st = "ok" THEN "unspec" ELSE rest.st, out |-> ln.out \o rest.out]

RProgram(tab, le, listo, inp) == IF le THEN RLittle(tab, listo, inp, 1, 0) ELSE RBig(tab, listo, inp, 1, 0)

IsPrefix(a, b) == Len(a) <= Len(b) /\ SubSeq(b, 1, Len(a)) = a

\* what an observed run (rc, stdout, whether stderr was empty) must satisfy
RObsOK(tab, le, listo, inp, rc, out, errEmpty) ==
    LET r == RProgram(tab, le, listo, inp) IN
    CASE r.st = "ok" -> rc = 0 /\ out = r.out
      [] r.st = "bad" -> rc = 1 /\ ~errEmpty /\ IsPrefix(r.out, out)       \* rejected; whole lines before the offending one are listed
      [] OTHER -> rc \in {0, 1} /\ (rc = 1 => ~errEmpty)

-----------------------------------------------------------------------------
(* M: lines.c as a step machine *)
CONSTANTS MTab, MLe, MListo, Alphabet, MaxLen, Prefixes, Suffixes
VARIABLES inp, pos, out, indent, st, buf
vars == <<inp, pos, out, indent, st, buf>>
AllInputs == UNION {[1..n -> Alphabet] : n \in 0..MaxLen}
Avail == Len(inp) - pos + 1
Init == inp \in {p \o s \o q : p \in Prefixes, s \in AllInputs, q \in Suffixes} /\ pos = 1 /\ out = <<>> /\ indent = 0 /\ st = "run" /\ buf = <<>>
Fail == st' = "fail" /\ UNCHANGED <<inp, pos, out, indent, buf>>
Ok == st' = "ok" /\ UNCHANGED <<inp, pos, out, indent, buf>>

\* decode_line(): tokens are expanded left to right; nothing is printed past the failure point, but what was
\* printed for this line before it stays printed (the header is printed first)
RECURSIVE MTokens(_, _, _)
MTokens(b, i, inq) ==
    IF i > Len(b) THEN [ok |-> TRUE, out |-> <<>>]
    ELSE LET c == b[i] IN
    IF c = 0 THEN [ok |-> FALSE, out |-> <<>>]
    ELSE IF inq THEN LET t == MTokens(b, i + 1, c # QUOTE) IN [t EXCEPT !.out = <<c>> \o @]
    ELSE LET e == MTab.base[c] IN
      CASE e.k = "self" -> LET t == MTokens(b, i + 1, c = QUOTE) IN [t EXCEPT !.out = <<c>> \o @]
        [] e.k = "kw" -> LET t == MTokens(b, i + 1, FALSE) IN [t EXCEPT !.out = e.s \o @]
        [] e.k = "ln" -> IF Len(b) - i < 3 THEN [ok |-> FALSE, out |-> <<>>]
                         ELSE LET t == MTokens(b, i + 4, FALSE) IN [t EXCEPT !.out = Dec(Target(b[i + 1], b[i + 2], b[i + 3])) \o @]
        [] e.k \in {"c6", "c7", "c8"} ->
                         IF i = Len(b) THEN [ok |-> FALSE, out |-> <<>>]
                         ELSE LET x == (IF e.k = "c6" THEN MTab.c6 ELSE IF e.k = "c7" THEN MTab.c7 ELSE MTab.c8)[b[i + 1]] IN
                              IF x.k # "kw" THEN [ok |-> FALSE, out |-> <<>>]
                              ELSE LET t == MTokens(b, i + 2, FALSE) IN [t EXCEPT !.out = x.s \o @]
        [] e.k = "pdp" -> IF i = Len(b) THEN [ok |-> FALSE, out |-> <<>>]
                          ELSE IF b[i + 1] = 152 THEN LET t == MTokens(b, i + 2, FALSE) IN [t EXCEPT !.out = QUIT \o @]
                          ELSE LET t == MTokens(b, i + 1, FALSE) IN [t EXCEPT !.out = LOAD \o @]
        [] OTHER -> [ok |-> FALSE, out |-> <<>>]
\* count() of loop tokens outside strings (repaired: was a raw byte count over the whole line)
RECURSIVE MCount(_, _, _, _)
MCount(b, i, inq, text) ==
    IF i > Len(b) THEN 0
    ELSE IF inq THEN MCount(b, i + 1, b[i] # QUOTE, text)
    ELSE (IF IsKw(MTab.base[b[i]], text) THEN 1 ELSE 0) + MCount(b, i + 1, b[i] = QUOTE, text)
MDecodeLine(num, body) ==
    LET ind == indent - (IF Bit(MListo, 1) = 1 THEN 2 * MCount(body, 1, FALSE, NEXT) ELSE 0)
                      - (IF Bit(MListo, 2) = 1 THEN 2 * MCount(body, 1, FALSE, UNTIL) ELSE 0)
        hdr == (IF num = 0 THEN Spaces(5) ELSE Pad5(Dec(num))) \o (IF Bit(MListo, 0) = 1 THEN <<32>> ELSE <<>>)
               \o Spaces(IF ind > 0 THEN ind ELSE 0)
        t == MTokens(body, 1, FALSE)
    IN [ok |-> t.ok, out |-> hdr \o t.out \o (IF t.ok THEN <<10>> ELSE <<>>),
        indent |-> ind + (IF Bit(MListo, 1) = 1 THEN 2 * MCount(body, 1, FALSE, FOR) ELSE 0)
                       + (IF Bit(MListo, 2) = 1 THEN 2 * MCount(body, 1, FALSE, REPEAT) ELSE 0)]

BigStep ==
    IF Avail = 0 THEN (IF pos = 1 THEN Ok ELSE Fail)
    ELSE IF inp[pos] # CR THEN Fail
    ELSE IF Avail < 2 THEN Fail
    ELSE IF inp[pos + 1] = 255 /\ Avail = 2 THEN Ok
    ELSE IF Avail < 4 THEN Fail
    ELSE LET len == inp[pos + 3] IN
         IF len < 4 THEN Fail
         ELSE IF Avail < len THEN Fail                     \* short fread: premature_eof
         ELSE LET body == SubSeq(inp, pos + 4, pos + len - 1)
                  d == MDecodeLine(256 * inp[pos + 1] + inp[pos + 2], body) IN
              /\ buf' = body \o SubSeq(buf, Len(body) + 1, Len(buf))      \* static buffer: overwritten prefix
              /\ out' = out \o d.out
              /\ st' = IF d.ok THEN "run" ELSE "fail"
              /\ pos' = pos + len /\ indent' = d.indent /\ UNCHANGED inp
LittleStep ==
    IF Avail = 0 THEN (IF pos = 1 THEN Ok ELSE Fail)
    ELSE LET len == inp[pos] IN
    IF len = 0 THEN (IF Avail >= 3 /\ inp[pos + 1] = 255 /\ inp[pos + 2] = 255 THEN Ok ELSE Fail)
    ELSE IF len < 3 THEN Fail
    ELSE IF Avail < 3 THEN Fail
    ELSE IF Avail < len THEN Fail                          \* short fread is an error (repaired: used to fall through)
    ELSE IF len = 3 THEN pos' = pos + 3 /\ UNCHANGED <<inp, out, indent, st, buf>>
    ELSE IF inp[pos + len - 1] # CR THEN Fail
    ELSE LET body == SubSeq(inp, pos + 3, pos + len - 2)
             d == MDecodeLine(inp[pos + 1] + 256 * inp[pos + 2], body) IN
         /\ buf' = SubSeq(inp, pos + 3, pos + len - 1) \o SubSeq(buf, len - 2, Len(buf))
         /\ out' = out \o d.out
         /\ st' = IF d.ok THEN "run" ELSE "fail"
         /\ pos' = pos + len /\ indent' = d.indent /\ UNCHANGED inp
Next == st = "run" /\ IF MLe THEN LittleStep ELSE BigStep
Spec == Init /\ [][Next]_vars

FairSpec == Spec /\ WF_vars(Next)
\* C08: the reader always comes to an end (every step consumes input; no byte string makes it loop)
Terminates == <>(st \in {"ok", "fail"})

\* M |= R at termination
MeetsR == st \in {"ok", "fail"} =>
            RObsOK(MTab, MLe, MListo, inp, IF st = "ok" THEN 0 ELSE 1, out, FALSE)
\* C09: the output only ever grows, and only by text determined by bytes already consumed
OutGrows == [][IsPrefix(out, out')]_vars
Emit == st \in {"ok", "fail"} => PrintT(<<"CASE", ToJson(inp)>>)

-----------------------------------------------------------------------------
(* a small synthetic token table for model checking *)
NoAffix == {<<>>}
BePrefix == {<<13, 0, 10, 8>>, <<13, 1, 0, 7>>}          \* line headers announcing 4 / 3 body bytes
BeSuffix == {<<>>, <<13, 255>>}
LePrefix == {<<8, 10, 0>>, <<7, 0, 1>>}                   \* 4 / 3 body bytes + CR
LeSuffix == {<<>>, <<13, 0, 255, 255>>, <<0, 255, 255>>}
\* a line "FOR", then one line of exactly 5 body bytes, then a line "A" and the end marker: what the middle line's string, 0x8D and
\* loop bytes do to the loop count shows in the indentation of the last line (Basic_*_str.cfg)
BePrefix5 == {<<13, 0, 5, 5, 227, 13, 0, 10, 9>>}
BeSuffixEnd == {<<13, 0, 20, 5, 65, 13, 255>>}
LePrefix5 == {<<5, 5, 0, 227, 13, 9, 10, 0>>}
LeSuffixEnd == {<<13, 5, 20, 0, 65, 13, 0, 255, 255>>}
KwE(s) == [k |-> "kw", s |-> s]
E(k) == [k |-> k, s |-> <<>>]
TabSmall == [base |-> [b \in 0..255 |->
                 CASE b = 0 -> E("inv") [] b = 1 -> E("inv")
                   [] b = 141 -> E("ln") [] b = 198 -> E("c6") [] b = 200 -> E("pdp") [] b = 24 -> E("fv")
                   [] b = 227 -> KwE(FOR) [] b = 237 -> KwE(NEXT) [] b = 245 -> KwE(REPEAT) [] b = 253 -> KwE(UNTIL)
                   [] b = 152 -> KwE(<<65, 83, 78>>)
                   [] OTHER -> E("self")],
             c6 |-> [b \in 0..255 |-> IF b = 152 THEN KwE(<<83, 85, 77>>) ELSE E("inv")],
             c7 |-> [b \in 0..255 |-> E("inv")],
             c8 |-> [b \in 0..255 |-> E("inv")]]
=============================================================================
