------------------------------ MODULE Catalog ------------------------------
(***************************************************************************)
(* DFS catalogue metadata (C02; used by C01/C13/C14/C17 as well).           *)
(*                                                                         *)
(* R: the on-disc format as documented (doc/dfs.1 "DFS FILE METADATA",      *)
(*    "SIGN EXTENSION OF ADDRESSES", the catalogue layout) -- operators     *)
(*    RLoad/RExec/RLen/RStart/RShown/RTitle/RCatOrderOK/CrcXmodem.          *)
(* M: how dfs_catalog.h / dfs_catalog.cc / cmd_cat.cc compute the same      *)
(*    things -- MLoad.. MShown, MCatLess.                                   *)
(* State: one well-formed catalogue `cat` (a sequence of entries), built    *)
(*    by AddFile steps that keep it well-formed; TLC checks M = R on every  *)
(*    entry of every reachable catalogue and emits them for replay.         *)
(***************************************************************************)
EXTENDS Naturals, Sequences, FiniteSets, TLC, Json

CONSTANTS Total, MinStart,   \* first sector a file may occupy (2 DFS, 4 Watford, 0 in an Opus volume)
               \* total sectors recorded in the catalogue (10-bit field)
          MaxFiles,
          Starts, Lens, Addrs,    \* boundary classes of the 10/18/18-bit fields
          Names, Dirs,            \* names are sequences of character codes
          EmitAt                  \* emit catalogues with exactly this many files (0 = all)

VARIABLES cat
vars == <<cat>>

-----------------------------------------------------------------------------
(* bit fields without a bit-vector library *)
Bits(x, lo, n) == (x \div (2 ^ lo)) % (2 ^ n)

Sectors(len) == (len + 255) \div 256

\* R: encoding of an entry into the 8 metadata bytes of the second catalogue sector
REnc(e) == << e.load % 256, Bits(e.load, 8, 8), e.exec % 256, Bits(e.exec, 8, 8),
              e.len % 256, Bits(e.len, 8, 8),
              Bits(e.exec, 16, 2) * 64 + Bits(e.len, 16, 2) * 16 + Bits(e.load, 16, 2) * 4 + Bits(e.start, 8, 2),
              e.start % 256 >>

\* R: decoding (what `info` must report)
RLoad(m)  == m[1] + 256 * m[2] + 65536 * Bits(m[7], 2, 2)
RExec(m)  == m[3] + 256 * m[4] + 65536 * Bits(m[7], 6, 2)
RLen(m)   == m[5] + 256 * m[6] + 65536 * Bits(m[7], 4, 2)
RStart(m) == m[8] + 256 * Bits(m[7], 0, 2)
\* bits 23..18 copy bit 17, bits 16..0 unchanged  (0xFC0000 = 16515072)
RShown(a) == IF Bits(a, 17, 1) = 1 THEN a + 16515072 ELSE a

\* M: CatalogEntry::load_address etc. and DFS::sign_extend as coded
MLoad(m)  == (m[1] + 256 * m[2]) + Bits(m[7] \div 4, 0, 2) * 65536
MExec(m)  == (m[3] + 256 * m[4]) + Bits(m[7] \div 64, 0, 2) * 65536
MLen(m)   == (m[5] + 256 * m[6]) + Bits(m[7] \div 16, 0, 2) * 65536
MStart(m) == m[8] + Bits(m[7], 0, 2) * 256
\* DFS::sign_extend as coded: 0xFC0000 | address   (0xFC0000 = 16515072; bits 18..23 forced to 1)
MShown(a) == IF Bits(a, 17, 1) = 1 THEN a - Bits(a, 18, 6) * 262144 + 16515072 ELSE a

-----------------------------------------------------------------------------
(* Title: 12 bytes, ends at the first NUL, top bits dropped, trailing blanks trimmed *)
RECURSIVE RTrim(_)
RTrim(s) == IF Len(s) > 0 /\ s[Len(s)] = 32 THEN RTrim(SubSeq(s, 1, Len(s) - 1)) ELSE s
UpToNul(s) == IF \E i \in 1..Len(s) : s[i] = 0
              THEN SubSeq(s, 1, (CHOOSE i \in 1..Len(s) : s[i] = 0 /\ \A j \in 1..(i - 1) : s[j] # 0) - 1)
              ELSE s
RTitle(raw) == RTrim([i \in 1..Len(UpToNul(raw)) |-> UpToNul(raw)[i] % 128])

-----------------------------------------------------------------------------
(* cat ordering: current directory first, then by directory, then by name, case-insensitively *)
Lower(c) == IF c >= 65 /\ c <= 90 THEN c + 32 ELSE c
LowerSeq(s) == [i \in 1..Len(s) |-> Lower(s[i])]
RECURSIVE SeqLess(_, _)
SeqLess(a, b) == IF Len(b) = 0 THEN FALSE
                 ELSE IF Len(a) = 0 THEN TRUE
                 ELSE IF a[1] < b[1] THEN TRUE
                 ELSE IF a[1] > b[1] THEN FALSE
                 ELSE SeqLess(Tail(a), Tail(b))
DirKey(d, cur) == IF d = cur THEN 0 ELSE Lower(d)
\* x, y: [dir, name]; strict "x sorts before y"
RCatLess(x, y, cur) == \/ DirKey(x.dir, cur) < DirKey(y.dir, cur)
                       \/ DirKey(x.dir, cur) = DirKey(y.dir, cur) /\ SeqLess(LowerSeq(x.name), LowerSeq(y.name))
\* a displayed list is acceptable iff it is a permutation of the catalogue and never out of order
Count(s, x) == Cardinality({i \in 1..Len(s) : s[i] = x})
RCatOrderOK(shown, entries, cur) ==
    /\ Len(shown) = Len(entries)
    /\ \A i \in 1..Len(entries) : Count(shown, entries[i]) = Count(entries, entries[i])     \* every file exactly once
    /\ \A i \in 1..(Len(shown) - 1) : ~RCatLess(shown[i + 1], shown[i], cur)

-----------------------------------------------------------------------------
(* XMODEM CRC-16 (init 0, poly 0x1021), bit-serial, for .inf files *)
Xor16(a, b) == LET f[i \in 0..16] == IF i = 16 THEN 0 ELSE (IF Bits(a, i, 1) # Bits(b, i, 1) THEN 2 ^ i ELSE 0) + f[i + 1] IN f[0]
CrcStep(crc) == IF crc >= 32768 THEN Xor16(((crc - 32768) * 2), 4129) ELSE crc * 2
RECURSIVE CrcN(_, _)
CrcN(crc, n) == IF n = 0 THEN crc ELSE CrcN(CrcStep(crc), n - 1)
RECURSIVE CrcXmodemFrom(_, _)
CrcXmodemFrom(crc, s) == IF Len(s) = 0 THEN crc ELSE CrcXmodemFrom(CrcN(Xor16(crc, s[1] * 256), 8), Tail(s))
CrcXmodem(s) == CrcXmodemFrom(0, s)

-----------------------------------------------------------------------------
(* Well-formed catalogues: entries in descending start order, non-overlapping, inside the disc *)
Entry == [name : Names, dir : Dirs, lock : BOOLEAN, load : Addrs, exec : Addrs, len : Lens, start : Starts]
End(e) == e.start + Sectors(e.len)
Fits(e) == e.start >= MinStart /\ End(e) <= Total
SameName(a, b) == Lower(a.dir) = Lower(b.dir) /\ LowerSeq(a.name) = LowerSeq(b.name)
CanAdd(c, e) == /\ Fits(e)
                /\ \A i \in 1..Len(c) : ~SameName(c[i], e)
                /\ Len(c) > 0 => End(e) <= c[Len(c)].start      \* appended entries lie below the previous ones

Init == cat = <<>>
AddFile(e) == Len(cat) < MaxFiles /\ CanAdd(cat, e) /\ cat' = Append(cat, e)
Next == \E e \in Entry : AddFile(e)
Spec == Init /\ [][Next]_vars

\* M = R on every entry (field extraction and display form)
FieldsAgree == \A i \in 1..Len(cat) : LET m == REnc(cat[i]) IN
                  /\ MLoad(m) = RLoad(m) /\ MExec(m) = RExec(m) /\ MLen(m) = RLen(m) /\ MStart(m) = RStart(m)
                  /\ RLoad(m) = cat[i].load /\ RExec(m) = cat[i].exec /\ RLen(m) = cat[i].len /\ RStart(m) = cat[i].start
ShownAgree == \A i \in 1..Len(cat) : MShown(cat[i].load) = RShown(cat[i].load) /\ MShown(cat[i].exec) = RShown(cat[i].exec)
\* sign-extension rule of the statement: changed exactly when bit 17 is set, low 17 bits never change
SignExtRule == \A a \in Addrs : /\ (RShown(a) # a) <=> (a >= 131072)
                                /\ RShown(a) % 131072 = a % 131072
                                /\ RShown(a) < 16777216
CrcKnown == CrcXmodem(<<49, 50, 51, 52, 53, 54, 55, 56, 57>>) = 12739      \* "123456789" -> 0x31C3

\* constant sets that a .cfg file cannot spell (sequences)
NamesOne == {<<70>>}
NamesTwo == {<<70>>, <<71, 50>>}
NamesOrder == {<<65>>, <<97, 98>>, <<66>>, <<65, 66>>, <<98, 33>>, <<60, 65>>, <<65, 39>>}      \* incl. < and ' (word anchors in a GNU regex when escaped)
Emit == (EmitAt = 0 \/ Len(cat) = EmitAt) => PrintT(<<"CASE", ToJson(cat)>>)
=============================================================================
