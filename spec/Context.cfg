SPECIFICATION Spec
CONSTANTS MaxOpts = 3
 OptTokens <- TokensSmall
INVARIANT ContextMeetsR
INVARIANT PresentationIrrelevant
INVARIANT Emit
CHECK_DEADLOCK FALSE
