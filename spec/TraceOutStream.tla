---------------------------- MODULE TraceOutStream ----------------------------
(* Judges fault-injection observations of the real tools with OutStream.tla's requirement operator.              *)
EXTENDS OutStream, IOUtils, Integers
TraceLog == ndJsonDeserialize(IOEnv.TRACE)
VARIABLES l, bad
tvars == <<vars, l, bad>>
Ev == TraceLog[l]
\* standard output: L bytes produced, `accepted` bytes reached the file (0 for /dev/full and a closed pipe)
StdoutOK(ev) == /\ ev.rc \in {0, 1, 2}
                /\ ROutcome(ev.L, IF ev.mode = "file" THEN ev.accepted ELSE 0, ev.rc, ev.errempty = 0)
\* extraction: `incomplete` counts expected files that are missing or short
ExtractOK(ev) == /\ ev.rc \in {0, 1, 2}
                 /\ ROutcome(0, ev.incomplete, ev.rc, ev.errempty = 0)
Judge(ev) == CASE ev.e = "stdout" -> StdoutOK(ev) [] ev.e = "extract" -> ExtractOK(ev) [] OTHER -> FALSE
TInit == /\ chunks = <<>> /\ cap = 1 /\ failAt = 0 /\ profile = "none" /\ unchecked = {} /\ bounds = {} /\ i = 1 /\ buf = 0 /\ accepted = 0 /\ bad = {} /\ exit = 0
         /\ diag = FALSE /\ st = "done" /\ l = 1
TNext == /\ l <= Len(TraceLog) /\ l' = l + 1
         /\ bad' = IF Judge(Ev) THEN bad ELSE bad \cup {l}
         /\ UNCHANGED <<chunks, cap, failAt, profile, unchecked, bounds, i, buf, accepted, exit, diag, st>>
TSpec == TInit /\ [][TNext]_tvars
Final == (l = Len(TraceLog) + 1) => PrintT(<<"VERDICT", ToJson([bad |-> bad, n |-> Len(TraceLog)])>>)
Accepted == TLCGet("stats").diameter - 1 = Len(TraceLog)
=============================================================================
