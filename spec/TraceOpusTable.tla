--------------------------- MODULE TraceOpusTable ---------------------------
(* Judges reads from discs built for OpusTable.tla's tables: ev.table is the start-track table, ev.i the volume   *)
(* (1 = A), ev.lbas the image sectors whose content was delivered, ev.foreign the number of delivered chunks that  *)
(* are no sector of the image, ev.want the sectors the entry names inside the volume (volume-relative).            *)
EXTENDS OpusTable, IOUtils, Integers
TraceLog == ndJsonDeserialize(IOEnv.TRACE)
VARIABLES l, bad
tvars == <<vars, l, bad>>
Ev == TraceLog[l]
Lbas(ev) == {ev.lbas[k] : k \in 1..Len(ev.lbas)}
Judge(ev) ==
    LET x == RExtent(ev.table, ev.i)
        inside == {x.origin + s : s \in {w \in {ev.want[k] : k \in 1..Len(ev.want)} : w < x.len}}
        whole == \A k \in 1..Len(ev.want) : ev.want[k] < x.len IN
    /\ ev.foreign = 0
    /\ Lbas(ev) \subseteq inside                                  \* nothing from outside the volume, nothing but the entry's sectors
    /\ IF whole THEN ev.rc = 0 /\ Lbas(ev) = inside               \* an entry inside its volume is delivered whole
       ELSE ev.rc # 0 /\ ev.errempty = 0                          \* one reaching past the volume's end is reported
TInit == table = <<>> /\ l = 1 /\ bad = {}
TNext == /\ l <= Len(TraceLog) /\ l' = l + 1
         /\ bad' = IF Judge(Ev) THEN bad ELSE bad \cup {l}
         /\ UNCHANGED vars
TSpec == TInit /\ [][TNext]_tvars
Final == (l = Len(TraceLog) + 1) => PrintT(<<"VERDICT", ToJson([bad |-> bad, n |-> Len(TraceLog)])>>)
Accepted == TLCGet("stats").diameter - 1 = Len(TraceLog)
=============================================================================
