SPECIFICATION Spec
CONSTANTS MTab <- TabSmall
 MLe = FALSE
 MListo = 7
 Alphabet = {34, 141, 227, 237, 65, 58}
 MaxLen = 5
 Prefixes <- BePrefix5
 Suffixes <- BeSuffixEnd
INVARIANT MeetsR
INVARIANT Emit
CHECK_DEADLOCK FALSE
