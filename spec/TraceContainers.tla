--------------------------- MODULE TraceContainers ---------------------------
(* Judges dump-sector / show-config observations of the real dfs against the documented offsets of        *)
(* Containers.tla.  obs = index (in sectors) in the container file of the sector that was shown, or -1 if  *)
(* the command failed cleanly, -2 if it failed uncleanly or showed bytes of no identifiable sector.        *)
EXTENDS Containers, IOUtils, Integers
TraceLog == ndJsonDeserialize(IOEnv.TRACE)
VARIABLES l, bad
tvars == <<vars, l, bad>>
Ev == TraceLog[l]
SectorOK(ev) == LET want == ROffset(ev.kind, ev.cyl, ev.spt, ev.side, ev.t, ev.s) IN
                IF want = FAIL THEN ev.obs = 0 - 1 ELSE ev.obs = want
SlotOK(ev) == (ev.obs = "present") = RSlotPresent(ev.status) /\ ev.obs \in {"present", "unformatted"}
Judge(ev) == CASE ev.e = "sector" -> SectorOK(ev)
               [] ev.e = "slot" -> SlotOK(ev)
               [] OTHER -> FALSE
TInit == kind = "plain1" /\ cyl = 40 /\ spt = 10 /\ side = 0 /\ x = 0 /\ l = 1 /\ bad = {}
TNext == /\ l <= Len(TraceLog) /\ l' = l + 1
         /\ bad' = IF Judge(Ev) THEN bad ELSE bad \cup {l}
         /\ UNCHANGED vars
TSpec == TInit /\ [][TNext]_tvars
Final == (l = Len(TraceLog) + 1) => PrintT(<<"VERDICT", ToJson([bad |-> bad, n |-> Len(TraceLog)])>>)
Accepted == TLCGet("stats").diameter - 1 = Len(TraceLog)
=============================================================================
