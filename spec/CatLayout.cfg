INIT Init
NEXT Next
CONSTANTS Widths = {1, 20, 39, 40, 41, 79, 80, 132}
 MaxCur = 9
 MaxOther = 9
INVARIANT LayoutAgrees
CHECK_DEADLOCK FALSE
