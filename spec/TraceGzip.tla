------------------------------ MODULE TraceGzip ------------------------------
(* Judges the differential observations of C10 (Obs(c, X.gz) = Obs(c, X)) and what happened to damaged .gz      *)
(* streams: a truncated stream must be rejected with a diagnostic; a corrupted one must be rejected or, when     *)
(* the flipped bit lies in a header field gzip ignores, give output identical to the intact file.                *)
EXTENDS Naturals, Sequences, TLC, Json, IOUtils
TraceLog == ndJsonDeserialize(IOEnv.TRACE)
VARIABLES l, bad
Ev == TraceLog[l]
SameOK(ev) == ev.same = 1 /\ ev.clean = 1
DamagedOK(ev) == CASE ev.kind = "cut" -> ev.outcome = "rejected"
                   [] ev.kind = "flip" -> ev.outcome \in {"rejected", "identical"}
                   [] ev.kind = "notgz" -> ev.outcome = "rejected" \/ (ev.pos = 3 /\ ev.outcome = "identical")   \* trailing garbage may be ignored
                   [] OTHER -> FALSE
Judge(ev) == CASE ev.e = "same" -> SameOK(ev) [] ev.e = "damaged" -> DamagedOK(ev) [] OTHER -> FALSE
TInit == l = 1 /\ bad = {}
TNext == /\ l <= Len(TraceLog) /\ l' = l + 1
         /\ bad' = IF Judge(Ev) THEN bad ELSE bad \cup {l}
TSpec == TInit /\ [][TNext]_<<l, bad>>
Final == (l = Len(TraceLog) + 1) => PrintT(<<"VERDICT", ToJson([bad |-> bad, n |-> Len(TraceLog)])>>)
Accepted == TLCGet("stats").diameter - 1 = Len(TraceLog)
=============================================================================
