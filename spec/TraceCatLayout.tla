--------------------------- MODULE TraceCatLayout ---------------------------
(* Judges the list region of real `cat` output (number of files on each line, 0 = empty line) produced on a        *)
(* pseudo-terminal of a given width against RLines of CatLayout.tla.                                               *)
EXTENDS CatLayout, IOUtils, Integers
TraceLog == ndJsonDeserialize(IOEnv.TRACE)
VARIABLES l, bad
tvars == <<vars, l, bad>>
Ev == TraceLog[l]
Judge(ev) == ev.rc = 0 /\ ev.lines = RLines(ev.ui, ev.width, ev.ncur, ev.nother)
TInit == ui = "acorn" /\ width = 40 /\ ncur = 0 /\ nother = 0 /\ l = 1 /\ bad = {}
TNext == /\ l <= Len(TraceLog) /\ l' = l + 1
         /\ bad' = IF Judge(Ev) THEN bad ELSE bad \cup {l}
         /\ UNCHANGED vars
TSpec == TInit /\ [][TNext]_tvars
Final == (l = Len(TraceLog) + 1) => PrintT(<<"VERDICT", ToJson([bad |-> bad, n |-> Len(TraceLog)])>>)
Accepted == TLCGet("stats").diameter - 1 = Len(TraceLog)
=============================================================================
