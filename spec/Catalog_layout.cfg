SPECIFICATION Spec
CONSTANTS Total = 1023
 MinStart = 2
 MaxFiles = 2
 Starts = {2, 3, 255, 256, 257, 511, 512, 767, 768, 1000, 1021, 1022}
 Lens = {0, 1, 255, 256, 257, 65535, 65536, 65537, 131072, 196608, 261376}
 Addrs = {0}
 Names <- NamesTwo
 Dirs = {36}
 EmitAt = 0
INVARIANT FieldsAgree
INVARIANT Emit
CHECK_DEADLOCK FALSE
