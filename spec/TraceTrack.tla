------------------------------ MODULE TraceTrack ------------------------------
(* Judges what the real decode_fm_track / decode_mfm_track yielded for concrete bit-streams built from          *)
(* Track.tla cases (faults placed at bit level) against the requirement operators of Track.tla, and at image   *)
(* level what a read of (track, sector) through dfs returned.                                                   *)
EXTENDS Track, IOUtils, Integers
TraceLog == ndJsonDeserialize(IOEnv.TRACE)
VARIABLES l, bad
tvars == <<vars, l, bad>>
Ev == TraceLog[l]
Ys(ev) == [k \in 1..Len(ev.yields) |-> [addr |-> ev.yields[k][1], payload |-> ev.yields[k][2]]]
\* faults arrive as a sequence of strings of length 2*n; n may differ from the constant NSec, so restate R generically
NoMis(ys) == \A k \in 1..Len(ys) : ys[k].addr = ys[k].payload
Good(ys, f, c) == \A k \in 1..Len(ys) : LET r == ys[k].addr IN
                     r >= 1 /\ 2 * r <= Len(f) /\ 2 * r <= c /\ f[2 * r - 1] = "ok" /\ f[2 * r] = "ok"
NoDup(ys) == \A j, k \in 1..Len(ys) : j # k => ys[j].addr # ys[k].addr
Round(ys, f, c) == ((\A i \in 1..Len(f) : f[i] = "ok") /\ c = Len(f)) =>
                     (Len(ys) = Len(f) \div 2 /\ \A r \in 1..(Len(f) \div 2) : \E k \in 1..Len(ys) : ys[k].addr = r)
DecodeOK(ev) == /\ ev.clean = 1
                \* (completeness on a fault-free track -- Round -- is C05's subject and is judged there, not here)
                /\ NoMis(Ys(ev)) /\ Good(Ys(ev), ev.faults, ev.cut) /\ NoDup(Ys(ev))
                /\ \A k \in 1..Len(ev.yields) : ev.yields[k][3] = 1          \* data CRC recomputed from the yielded bytes
\* raw streams: only "every yielded sector has a good data CRC" can be judged
\* (streams cut from a stamped track without moving fields - single flips, wiped stretches - also identify the payload: ev.addr = 1,
\* and then a yield must carry the payload recorded under its address)
RawOK(ev) == /\ ev.clean = 1 /\ \A k \in 1..Len(ev.yields) : ev.yields[k][3] = 1
             /\ ev.addr = 1 => \A k \in 1..Len(ev.yields) : ev.yields[k][2] = ev.yields[k][1]
\* image level: reading (track, sector) gave the sector recorded there (1), failed cleanly (0), or something else (2)
ReadOK(ev) == ev.result \in {0, 1} /\ (ev.damaged = 0 => ev.result = 1)
Judge(ev) == CASE ev.e = "decode" -> DecodeOK(ev)
               [] ev.e = "raw" -> RawOK(ev)
               [] ev.e = "read" -> ReadOK(ev)
               [] OTHER -> FALSE
TInit == faults = <<>> /\ cut = 0 /\ partial = FALSE /\ pos = 1 /\ st = "Done" /\ cur = 0 /\ yielded = <<>> /\ l = 1 /\ bad = {}
TNext == /\ l <= Len(TraceLog) /\ l' = l + 1
         /\ bad' = IF Judge(Ev) THEN bad ELSE bad \cup {l}
         /\ UNCHANGED vars
TSpec == TInit /\ [][TNext]_tvars
Final == (l = Len(TraceLog) + 1) => PrintT(<<"VERDICT", ToJson([bad |-> bad, n |-> Len(TraceLog)])>>)
Accepted == TLCGet("stats").diameter - 1 = Len(TraceLog)
=============================================================================
