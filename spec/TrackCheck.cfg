INIT Init
NEXT Next
CONSTANTS MaxSectors = 4
 Cyls = {0, 1}
 Heads = {0, 1}
 Recs = {0, 1, 2, 3}
 Sizes = {128, 256, 1024}
 TrackNo = 1
 SideNo = 0
 RefCount = 3
INVARIANT AcceptedIsSafe
INVARIANT ReadsFit
INVARIANT Emit
CHECK_DEADLOCK FALSE
