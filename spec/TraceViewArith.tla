--------------------------- MODULE TraceViewArith ---------------------------
(* Judges what the real FileView::read_block asked its media for (h_view): ev.w the view parameters, ev.x the sector, ev.obs the   *)
(* position (-1: refused, -2: an exception escaped).                                                                               *)
EXTENDS ViewArith, IOUtils, Integers
TraceLog == ndJsonDeserialize(IOEnv.TRACE)
VARIABLES l, bad
tvars == <<vars, l, bad>>
Ev == TraceLog[l]
Judge(ev) == ev.obs = (IF RViewRead(ev.w, ev.x) = FAIL THEN 0 - 1 ELSE RViewRead(ev.w, ev.x))
TInit == w = [skip |-> 0, take |-> 0, leave |-> 0, total |-> 0] /\ x = 0 /\ l = 1 /\ bad = {}
TNext == /\ l <= Len(TraceLog) /\ l' = l + 1
         /\ bad' = IF Judge(Ev) THEN bad ELSE bad \cup {l}
         /\ UNCHANGED vars
TSpec == TInit /\ [][TNext]_tvars
Final == (l = Len(TraceLog) + 1) => PrintT(<<"VERDICT", ToJson([bad |-> bad, n |-> Len(TraceLog)])>>)
Accepted == TLCGet("stats").diameter - 1 = Len(TraceLog)
=============================================================================
