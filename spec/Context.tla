------------------------------- MODULE Context -------------------------------
(***************************************************************************)
(* The selection context of a dfs invocation (dfs/main.cc option loop,     *)
(* DFSContext): the global options are processed left to right; --drive N  *)
(* or --drive NL sets the current drive and Opus volume, --dir C the        *)
(* current directory, --ui S the user-interface style; --verbose and        *)
(* --show-config set flags.  A command then resolves names against that     *)
(* context: an omitted drive or directory defaults to --drive/--dir (C15),  *)
(* and the presentation options never change what is selected (C18).        *)
(* R: the effective drive, volume and directory are those of the LAST       *)
(*    --drive / --dir option (defaults 0, none, '$'), whatever else is on   *)
(*    the command line and in whatever order.                               *)
(* M: one step per option, as main() performs it (the --ui step rebuilds    *)
(*    the context from its parts).                                          *)
(***************************************************************************)
EXTENDS Naturals, Sequences, FiniteSets, TLC, Json
CONSTANTS MaxOpts, OptTokens
VARIABLES opts, i, drive, vol, dir, ui, verbose, showcfg
vars == <<opts, i, drive, vol, dir, ui, verbose, showcfg>>
\* tokens: [k |-> "drive", d |-> 0..3, v |-> "" or "A".."H"], [k |-> "dir", c |-> char], [k |-> "ui", s |-> style],
\*         [k |-> "verbose"], [k |-> "showcfg"]
Init == /\ opts \in UNION {[1..n -> OptTokens] : n \in 0..MaxOpts}
        /\ i = 1 /\ drive = 0 /\ vol = "" /\ dir = 36 /\ ui = "default" /\ verbose = FALSE /\ showcfg = FALSE
Step == /\ i <= Len(opts)
        /\ LET t == opts[i] IN
           /\ drive' = IF t.k = "drive" THEN t.d ELSE drive
           /\ vol' = IF t.k = "drive" THEN t.v ELSE vol            \* a plain --drive N clears the volume letter
           /\ dir' = IF t.k = "dir" THEN t.c ELSE dir
           /\ ui' = IF t.k = "ui" THEN t.s ELSE ui                 \* ctx = DFSContext(ctx.current_directory, ctx.current_volume, ui)
           /\ verbose' = (verbose \/ t.k = "verbose")
           /\ showcfg' = (showcfg \/ t.k = "showcfg")
        /\ i' = i + 1 /\ UNCHANGED opts
Next == Step
Spec == Init /\ [][Next]_vars

(* R *)
LastOf(s, kind) == LET idx == {j \in 1..Len(s) : s[j].k = kind} IN
                   IF idx = {} THEN 0 ELSE CHOOSE j \in idx : \A m \in idx : m <= j
REffective(s) == [drive |-> IF LastOf(s, "drive") = 0 THEN 0 ELSE s[LastOf(s, "drive")].d,
                  vol |-> IF LastOf(s, "drive") = 0 THEN "" ELSE s[LastOf(s, "drive")].v,
                  dir |-> IF LastOf(s, "dir") = 0 THEN 36 ELSE s[LastOf(s, "dir")].c]
Done == i > Len(opts)
ContextMeetsR == Done => [drive |-> drive, vol |-> vol, dir |-> dir] = REffective(opts)
\* the presentation options are not part of what is selected: deleting them leaves the effective context unchanged
Strip(s) == SelectSeq(s, LAMBDA t : t.k \in {"drive", "dir"})
PresentationIrrelevant == Done => REffective(Strip(opts)) = REffective(opts)
Emit == Done => PrintT(<<"CASE", ToJson([opts |-> opts, eff |-> REffective(opts)])>>)

TokensSmall == {[k |-> "drive", d |-> 0, v |-> ""], [k |-> "drive", d |-> 0, v |-> "B"], [k |-> "drive", d |-> 1, v |-> ""], [k |-> "drive", d |-> 0, v |-> "A"],
                [k |-> "dir", c |-> 36], [k |-> "dir", c |-> 88], [k |-> "ui", s |-> "watford"], [k |-> "ui", s |-> "acorn"],
                [k |-> "verbose"], [k |-> "showcfg"]}
=============================================================================
