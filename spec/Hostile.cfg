SPECIFICATION Spec
CONSTANTS Kinds = {"hxc", "hfe", "mmb", "dump"}
INVARIANT Emit
PROPERTY WalkTerminates
CHECK_DEADLOCK FALSE
