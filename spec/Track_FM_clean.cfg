SPECIFICATION Spec
CONSTANTS NSec = 5
 Enc = "FM"
 Faults = {"ok"}
INVARIANT NoMisaddress
INVARIANT OnlyGood
INVARIANT RoundTrip
CHECK_DEADLOCK FALSE
