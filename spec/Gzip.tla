-------------------------------- MODULE Gzip --------------------------------
(***************************************************************************)
(* Transparent gzip decompression (C10): img_gzfile.cc's inflate loop over  *)
(* an abstract zlib, and the use of the file name for format hints.         *)
(* A .gz file is a sequence of members; member = [cin, ratio] : cin units   *)
(* of compressed input, each expanding to `ratio` units of output; a file   *)
(* may be truncated (`cut` units of the whole compressed stream are         *)
(* present) or have one corrupted unit (`bad`).                             *)
(* Abstract zlib (its contract): inflate consumes input units while there   *)
(* is input and room for their output; returns END when a member is         *)
(* complete, DATA_ERROR at a corrupted unit, BUF_ERROR when it can make no  *)
(* progress, OK otherwise.                                                  *)
(* R: output = the concatenated output of all members, or the file is       *)
(*    rejected when truncated/corrupt; never partial data presented as the  *)
(*    image.                                                                *)
(* M: the two nested loops with input chunks of InBuf units and an output   *)
(*    buffer of OutBuf units; the input buffer is refilled only when it is   *)
(*    empty; at the END of a member the loop goes on with the next member    *)
(*    when more data follows (inflateReset), otherwise it is done            *)
(*    (repaired: it used to stop at the first END).                          *)
(***************************************************************************)
EXTENDS Naturals, Sequences, FiniteSets, TLC, Json
CONSTANTS MaxMembers, MaxCin, Ratios, InBuf, OutBuf

VARIABLES members, cut, bad,           \* the file
          fpos, availIn, gotLast, member, mpos, pendingOut, produced, zerr, st, phase
vars == <<members, cut, bad, fpos, availIn, gotLast, member, mpos, pendingOut, produced, zerr, st, phase>>

TotalIn(ms) == LET F[n \in 0..Len(ms)] == IF n = 0 THEN 0 ELSE F[n - 1] + ms[n].cin IN F[Len(ms)]
TotalOut(ms) == LET F[n \in 0..Len(ms)] == IF n = 0 THEN 0 ELSE F[n - 1] + ms[n].cin * ms[n].ratio IN F[Len(ms)]
Member == [cin : 1..MaxCin, ratio : Ratios]
Init == /\ members \in UNION {[1..k -> Member] : k \in 1..MaxMembers}
        /\ cut \in 0..TotalIn(members)              \* units present; = TotalIn: intact
        /\ bad \in 0..TotalIn(members)              \* index of a corrupted unit, 0 = none
        /\ fpos = 0 /\ availIn = 0 /\ gotLast = 0 /\ member = 1 /\ mpos = 0 /\ pendingOut = 0 /\ produced = 0
        /\ zerr = "OK" /\ st = "run" /\ phase = "read"
Intact == cut = TotalIn(members) /\ bad = 0

\* outer loop: fread up to InBuf units
Read == /\ st = "run" /\ phase = "read"
        /\ IF availIn > 0 THEN UNCHANGED <<availIn, gotLast, fpos>>                     \* unconsumed input left: no fread
           ELSE LET got == IF cut - fpos < InBuf THEN cut - fpos ELSE InBuf IN
                /\ availIn' = got /\ gotLast' = got /\ fpos' = fpos + got
        /\ phase' = "inflate"
        /\ UNCHANGED <<members, cut, bad, member, mpos, pendingOut, produced, zerr, st>>
\* the abstract zlib: one inflate() call with OutBuf units of room.  z = [ain, mpos, pend, out, consumed, err]
Min(a, b) == IF a < b THEN a ELSE b
RECURSIVE Z(_, _)
Z(z, nextUnit) ==
    LET room == OutBuf - z.out
        fl == Min(z.pend, room)
    IN IF fl > 0 THEN Z([z EXCEPT !.pend = @ - fl, !.out = @ + fl], nextUnit)          \* deliver pending output first
       ELSE IF z.pend > 0 \/ room = 0 THEN z                                              \* output buffer full
       ELSE IF z.ain = 0 \/ z.mpos = members[member].cin THEN z                           \* no input / member complete
       ELSE IF nextUnit = bad THEN [z EXCEPT !.err = TRUE]                                \* corrupted unit
       ELSE Z([z EXCEPT !.ain = @ - 1, !.mpos = @ + 1, !.pend = members[member].ratio, !.consumed = @ + 1], nextUnit + 1)
ConsumedSoFar == fpos - availIn
Inflate ==
    /\ st = "run" /\ phase = "inflate"
    /\ LET z == Z([ain |-> availIn, mpos |-> mpos, pend |-> pendingOut, out |-> 0, consumed |-> 0, err |-> FALSE], ConsumedSoFar + 1)
           res == IF z.err THEN "DATA_ERROR"
                  ELSE IF z.mpos = members[member].cin /\ z.pend = 0 THEN "END"
                  ELSE IF z.consumed = 0 /\ z.out = 0 THEN "BUF_ERROR"
                  ELSE "OK"
           more == z.ain > 0 \/ fpos < cut                                               \* another byte follows (in the buffer or the file)
       IN /\ availIn' = z.ain /\ pendingOut' = z.pend /\ produced' = produced + z.out /\ zerr' = res
          /\ mpos' = IF res = "END" /\ more /\ member < Len(members) THEN 0 ELSE z.mpos
          /\ member' = IF res = "END" /\ more /\ member < Len(members) THEN member + 1 ELSE member
          /\ IF res = "END" THEN (IF more /\ member < Len(members) THEN st' = st /\ phase' = "read"   \* inflateReset; next member
                                  ELSE st' = "done" /\ phase' = phase)
             ELSE IF res = "BUF_ERROR" /\ gotLast > 0 THEN st' = st /\ phase' = "read"    \* "want more input data": break
             ELSE IF res \in {"BUF_ERROR", "DATA_ERROR"} THEN st' = "error" /\ phase' = phase   \* check_zlib_error_code throws
             ELSE IF z.out = OutBuf THEN st' = st /\ phase' = "inflate"                   \* do ... while (avail_out == 0)
             ELSE st' = st /\ phase' = "read"
    /\ UNCHANGED <<members, cut, bad, fpos, gotLast>>
Next == Read \/ Inflate
Spec == Init /\ [][Next]_vars
FairSpec == Spec /\ WF_vars(Next)

\* R
\* A file cut exactly at the end of a member is a complete gzip file of fewer members (nothing in it says more was meant to
\* follow); any other truncation, and a corrupted unit among those present, must be rejected.
Prefix(k) == SubSeq(members, 1, k)
WholeMembers == {k \in 1..Len(members) : TotalIn(Prefix(k)) = cut}
Sound == WholeMembers # {} /\ (bad = 0 \/ bad > cut)
RAccepts == st = "done" => (Sound /\ \E k \in WholeMembers : produced = TotalOut(Prefix(k)))
RRejectsDamaged == (st \in {"done", "error"} /\ ~Sound) => st = "error"
RAcceptsSound == (st \in {"done", "error"} /\ Sound) => st = "done"
\* restricted to the first member (what the loop as coded can see)
FirstDamaged == cut < members[1].cin \/ (bad # 0 /\ bad <= members[1].cin)
RRejectsDamagedFirst == (st \in {"done", "error"}) => (st = "error" <=> FirstDamaged)
\* as coded only the first member is inflated: the single-member restriction of R is what M meets
RAcceptsFirstMember == st = "done" => produced = members[1].cin * members[1].ratio
Terminates == <>(st \in {"done", "error"})

\* ---- reading the decompressed copy back (DecompressedFile::read, FilePresentedBlockwise::read_block)
\* A read of len units at pos returns what is there, shortened at the end of the data; a block (BlockUnits units) is
\* readable only when it comes back whole.  OsFile::read on the uncompressed file follows the same rule, which is what
\* makes compression transparent for an image whose length is not a whole number of sectors.
BlockUnits == 2
MReadLen(size, pos, len) == IF pos >= size THEN 0 ELSE IF size - pos < len THEN size - pos ELSE len
MBlockReadable(size, lba) == MReadLen(size, lba * BlockUnits, BlockUnits) = BlockUnits
RBlockReadable(size, lba) == (lba + 1) * BlockUnits <= size
RReadBack == st = "done" => \A lba \in 0..(produced \div BlockUnits + 1) :
                 \A k \in WholeMembers : MBlockReadable(produced, lba) = RBlockReadable(TotalOut(Prefix(k)), lba)
=============================================================================
