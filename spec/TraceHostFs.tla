----------------------------- MODULE TraceHostFs -----------------------------
(* Judges sandbox snapshots taken around real dfs runs: every created path (as a list of components below     *)
(* the sandbox root, the destination being <<"r","d">>) must be a direct child of the destination; commands    *)
(* other than extract-* create nothing; the image file is unchanged.                                           *)
EXTENDS HostFs, IOUtils, Integers
TraceLog == ndJsonDeserialize(IOEnv.TRACE)
VARIABLES l, bad
tvars == <<vars, l, bad>>
Ev == TraceLog[l]
DestC == <<"r", "d">>
\* (an event may name its own destination - a long path, a name ending in a blank; the default is r/d)
DestOf(ev) == IF "dest" \in DOMAIN ev THEN ev.dest ELSE DestC
ChildOf(dst, p) == Len(p) = Len(dst) + 1 /\ SubSeq(p, 1, Len(dst)) = dst
\* (a run that ends uncleanly is C07's subject; here only where files appear and whether the image changed)
Judge(ev) == /\ ev.image_same = 1
             /\ IF ev.extracting = 1 THEN \A i \in 1..Len(ev.created) : ChildOf(DestOf(ev), ev.created[i])
                ELSE Len(ev.created) = 0
             /\ Len(ev.changed) = 0            \* no pre-existing file was modified or removed
TInit == name = <<>> /\ dirc = 0 /\ trailing = FALSE /\ l = 1 /\ bad = {}
TNext == /\ l <= Len(TraceLog) /\ l' = l + 1
         /\ bad' = IF Judge(Ev) THEN bad ELSE bad \cup {l}
         /\ UNCHANGED vars
TSpec == TInit /\ [][TNext]_tvars
Final == (l = Len(TraceLog) + 1) => PrintT(<<"VERDICT", ToJson([bad |-> bad, n |-> Len(TraceLog)])>>)
Accepted == TLCGet("stats").diameter - 1 = Len(TraceLog)
=============================================================================
