SPECIFICATION TSpec
CONSTANTS Total = 1023
 MinStart = 2
 MaxFiles = 1
 Starts = {2}
 Lens = {0}
 Addrs = {0}
 Names <- NamesOne
 Dirs = {36}
 EmitAt = 0
INVARIANT Final
POSTCONDITION Accepted
CHECK_DEADLOCK FALSE
