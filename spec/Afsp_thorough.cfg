INIT Init
NEXT Next
CONSTANTS PatChars = {65, 97, 49, 35, 42, 46, 58, 94, 91, 92, 123, 60, 36, 45, 40, 41, 43, 63, 124, 125, 93, 39, 96, 62, 126, 64}
 MaxPat = 2
 Prefixes <- PrefixesSmall
 NameChars = {65, 97, 49, 94, 91, 92, 123, 124, 60, 36, 45, 40, 41, 43, 63, 125, 93, 39, 96, 62, 126, 64, 98}
 MaxName = 1
 FileDirs = {36, 65, 94}
 FileDrives = {0, 1}
 CtxDrive = 0
 CtxDirs = {36, 94}
INVARIANT ModelMeetsR
INVARIANT DocExamples
INVARIANT FindMeetsR
INVARIANT Emit
CHECK_DEADLOCK FALSE
