SPECIFICATION TSpec
CONSTANTS StartClasses = {0, 2, 258, 514, 770, 5}
 Totals = {1023}
 Exts = {"sdd"}
INVARIANT Final
POSTCONDITION Accepted
CHECK_DEADLOCK FALSE
