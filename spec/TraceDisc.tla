------------------------------ MODULE TraceDisc ------------------------------
(* Judges what `type --binary`, `extract-files`, `type`, `list`, `dump` of the real dfs delivered, against  *)
(* Disc.tla's ROutcome (C01 exactness, C17 confinement) and Render.tla.  Every event is consumed; an event   *)
(* the requirement rejects records its line number in `bad`.                                                *)
EXTENDS Disc, Render, IOUtils, Integers
TraceLog == ndJsonDeserialize(IOEnv.TRACE)
VARIABLES l, bad
tvars == <<vars, l, bad>>
Ev == TraceLog[l]

ReadOK(ev) ==
    /\ ev.foreign = 0                                      \* no chunk from another surface/volume, none unidentifiable
    /\ ROutcome(ev.g, ev.start, ev.nsec, ev.rem, IF ev.rc = 0 THEN "done" ELSE "error", ev.segs)
    /\ (ev.rc # 0 => ev.err = 1 /\ ev.rc \in {1, 2})       \* failure is reported, cleanly

RenderOK(ev) ==
    /\ ev.rc = 0
    /\ CASE ev.cmd = "type" -> ev.out = RType(ev.body)
         [] ev.cmd = "list" -> ev.out = RList(ev.body)
         [] ev.cmd = "dump" -> ev.rows = RDumpRows(ev.body)
         [] OTHER -> FALSE

\* commands that walk a whole surface (extract-unused, sector-map driven by the catalogue's total): whatever the catalogue
\* claims, nothing delivered may come from beyond the surface
ConfineOK(ev) == ev.foreign = 0 /\ ev.rc \in {0, 1, 2} /\ (ev.rc # 0 => ev.err = 1)
Judge(ev) == CASE ev.e = "read" -> ReadOK(ev)
               [] ev.e = "confine" -> ConfineOK(ev)
               [] ev.e = "render" -> RenderOK(ev)
               [] OTHER -> FALSE

TInit == /\ reg = [o |-> 0, L |-> 8, S |-> 8, F |-> 8] /\ start = 0 /\ nsec = 0 /\ rem = 0
         /\ sec = 0 /\ out = <<>> /\ st = "run" /\ l = 1 /\ bad = {}
TNext == /\ l <= Len(TraceLog)
         /\ l' = l + 1
         /\ bad' = IF Judge(Ev) THEN bad ELSE bad \cup {l}
         /\ UNCHANGED vars
TSpec == TInit /\ [][TNext]_tvars
Final == (l = Len(TraceLog) + 1) => PrintT(<<"VERDICT", ToJson([bad |-> bad, n |-> Len(TraceLog)])>>)
Accepted == TLCGet("stats").diameter - 1 = Len(TraceLog)
=============================================================================
