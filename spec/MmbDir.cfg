SPECIFICATION Spec
CONSTANTS N = 3
 StatusBytes = {0, 15, 240, 255, 85}
INVARIANT OwnStatusOnly
INVARIANT Emit
CHECK_DEADLOCK FALSE
