SPECIFICATION Spec
CONSTANTS MaxChunks = 4
 ChunkSizes = {1, 2, 5}
 Caps = {1, 3, 100}
 Profiles = {"c:flush"}
INVARIANT ExitZeroImpliesComplete
CHECK_DEADLOCK FALSE
