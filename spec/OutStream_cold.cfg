SPECIFICATION Spec
CONSTANTS MaxChunks = 3
 ChunkSizes = {0, 1, 2, 5}
 Caps = {1, 3}
 Profiles = {"c:flush"}
INVARIANT ExitZeroImpliesComplete
CHECK_DEADLOCK FALSE
