SPECIFICATION Spec
CONSTANTS Regions <- RegionsSmall
 MaxN = 3
INVARIANT MeetsR
INVARIANT NoForeign
INVARIANT Emit
CHECK_DEADLOCK FALSE
