------------------------------ MODULE ReadStack ------------------------------
(***************************************************************************)
(* One sector read travelling down the layers of dfs (C04, C17, C01, C16): *)
(*   file body   CatalogEntry::visit_file_body_piecewise  (dfs_catalog.cc) *)
(*   volume      Volume::Access::read_block               (dfs_volume.h)   *)
(*   cache       CachedDevice::read_block                 (storage.cc)     *)
(*   view        FileView::read_block                     (img_fileio.cc)  *)
(*   block       FilePresentedBlockwise::read_block       (img_sdf.cc)     *)
(*   (flux drives: the decoded-sector lookup takes the place of view+block) *)
(* Each layer is one action; the hook events of the implementation are one  *)
(* event per action and TraceReadStack.tla replays them through the same    *)
(* step operators (AfterBody .. AfterBlk).                                  *)
(* R: a file-body read stays inside the file and inside its volume; what    *)
(*    is returned is the content of device sector origin + sec, which the   *)
(*    view places at the documented file position; a read that cannot be    *)
(*    satisfied fails; a cached sector is what was read from that place.    *)
(***************************************************************************)
EXTENDS Layout

CONSTANTS Views,        \* set of [skip, take, leave, total] (sectors)
          Vols,         \* set of [origin, len]
          Files,        \* set of [start, last]  (volume-relative sectors; last = start - 1 for an empty file)
          FileLens,     \* image file lengths in whole sectors
          CacheSize, MaxSector

VARIABLES v, flen,                   \* the drive: its view and the length of the image file (fixed for a run)
          vol, file,                 \* the volume and file of the read in flight (chosen per read)
          cache,                     \* device sector -> file position it was read from
          layer, cur,                \* where the read is and the sector number at that layer
          top,                       \* what was asked at the top: [kind, sec]
          res                        \* outcome of the last completed read: [ok, pos] (pos: position in the image file)
vars == <<v, flen, vol, file, cache, layer, cur, top, res>>

NoTop == [kind |-> "none", sec |-> 0]
Idle(c) == [layer |-> "idle", cur |-> c]
\* ---- the step operators: where a read is after each layer has looked at it
AfterBody(sec) == [layer |-> "vol", cur |-> sec]
AfterVol(vl, c) == IF c < vl.len THEN [layer |-> "cache", cur |-> vl.origin + c] ELSE Idle(c)
AfterCache(hit, c) == IF hit THEN Idle(c) ELSE [layer |-> "dev", cur |-> c]
AfterView(w, c) == IF MRead(w, c) = FAIL THEN Idle(c) ELSE [layer |-> "blk", cur |-> MRead(w, c)]
AfterBlk(c) == Idle(c)
\* ---- the guards
BodyGuard(f, sec) == sec >= f.start /\ sec <= f.last

Init == /\ v \in Views /\ flen \in FileLens /\ vol \in Vols /\ file \in Files
        /\ cache = <<>> /\ layer = "idle" /\ cur = 0 /\ top = NoTop /\ res = [ok |-> FALSE, pos |-> FAIL]

Go(n) == layer' = n.layer /\ cur' = n.cur
Body(f, vl, sec) == /\ layer = "idle" /\ BodyGuard(f, sec)
                    /\ file' = f /\ vol' = vl /\ Go(AfterBody(sec)) /\ top' = [kind |-> "body", sec |-> sec]
                    /\ UNCHANGED <<v, flen, cache, res>>
\* catalogue reads, dump-sector, extract-unused: straight to the drive
Raw(lba) == /\ layer = "idle"
            /\ Go([layer |-> "cache", cur |-> lba]) /\ top' = [kind |-> "raw", sec |-> lba]
            /\ UNCHANGED <<v, flen, vol, file, cache, res>>
VolRead == /\ layer = "vol" /\ Go(AfterVol(vol, cur))
           /\ res' = IF cur < vol.len THEN res ELSE [ok |-> FALSE, pos |-> FAIL]
           /\ UNCHANGED <<v, flen, vol, file, cache, top>>
CacheRead == /\ layer = "cache" /\ Go(AfterCache(cur \in DOMAIN cache, cur))
             /\ res' = IF cur \in DOMAIN cache THEN [ok |-> TRUE, pos |-> cache[cur]] ELSE res
             /\ UNCHANGED <<v, flen, vol, file, cache, top>>
ViewRead == /\ layer = "dev" /\ Go(AfterView(v, cur))
            /\ res' = IF MRead(v, cur) = FAIL THEN [ok |-> FALSE, pos |-> FAIL] ELSE res
            \* the sector goes into the cache on the way back up if the block read succeeds
            /\ cache' = IF cur < CacheSize /\ MRead(v, cur) # FAIL /\ MRead(v, cur) < flen
                        THEN [d \in DOMAIN cache \cup {cur} |-> IF d = cur THEN MRead(v, cur) ELSE cache[d]] ELSE cache
            /\ UNCHANGED <<v, flen, vol, file, top>>
BlkRead == /\ layer = "blk" /\ Go(AfterBlk(cur))
           /\ res' = IF cur < flen THEN [ok |-> TRUE, pos |-> cur] ELSE [ok |-> FALSE, pos |-> FAIL]
           /\ UNCHANGED <<v, flen, vol, file, cache, top>>
Next == (\E f \in Files, vl \in Vols, s \in 0..MaxSector : Body(f, vl, s)) \/ (\E s \in 0..MaxSector : Raw(s))
        \/ VolRead \/ CacheRead \/ ViewRead \/ BlkRead
Spec == Init /\ [][Next]_vars

-----------------------------------------------------------------------------
(* R *)
RInFile(f, sec) == sec >= f.start /\ sec <= f.last
RInVolume(w, sec) == sec < w.len
\* the documented place of device sector d under a view: runs of `take` sectors every take + leave, after skip
RPlace(w, d) == IF w.take = 0 \/ d >= w.total THEN FAIL ELSE w.skip + (d \div w.take) * (w.take + w.leave) + (d % w.take)
RResult(w, fl, d, r) == IF RPlace(w, d) # FAIL /\ RPlace(w, d) < fl THEN r.ok /\ r.pos = RPlace(w, d) ELSE ~r.ok
ResultMeetsR == (layer = "idle" /\ top.kind = "body") =>
                   IF RInVolume(vol, top.sec) THEN RResult(v, flen, vol.origin + top.sec, res) ELSE ~res.ok
RawMeetsR == (layer = "idle" /\ top.kind = "raw") => RResult(v, flen, top.sec, res)
\* while a body read is in flight below the volume layer it is inside the file and the volume
StaysInside == (top.kind = "body" /\ layer \in {"cache", "dev"}) =>
                   (cur >= vol.origin /\ cur < vol.origin + vol.len /\ RInFile(file, cur - vol.origin))
CacheIsFaithful == \A d \in DOMAIN cache : cache[d] = RPlace(v, d)
TypeOK == layer \in {"idle", "vol", "cache", "dev", "blk"}

\* small constants for model checking (records cannot be spelt in a .cfg)
ViewsSmall == {[skip |-> 0, take |-> 6, leave |-> 0, total |-> 6], [skip |-> 2, take |-> 2, leave |-> 2, total |-> 6],
               [skip |-> 3, take |-> 4, leave |-> 0, total |-> 4], [skip |-> 0, take |-> 0, leave |-> 1, total |-> 1]}
VolsSmall == {[origin |-> 0, len |-> 6], [origin |-> 2, len |-> 3], [origin |-> 1, len |-> 2]}
FilesSmall == {[start |-> 0, last |-> 1], [start |-> 2, last |-> 4], [start |-> 1, last |-> 0], [start |-> 5, last |-> 7]}
=============================================================================
