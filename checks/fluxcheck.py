"""Shared by C05 and C06: building concrete tracks from Track.tla cases, running the real decoders (h_track), judging."""
import os, json, random, subprocess
import common, mkdisc, mkflux

SALT = 91


def concrete_track(enc, case, rnd, nsec=None):
    """case: dict(faults=[..2n..], cut, partial) -> (Track with faults applied and truncated, cells)"""
    f = case["faults"]
    n = len(f) // 2
    secs = {r: mkdisc.stamp(SALT, r) for r in range(n)}
    gaps = dict(gap1=rnd.choice([None, 4, 60]), gap2=rnd.choice([None, None, 8 if enc == "FM" else 18, 14 if enc == "FM" else 28]),
                gap3=rnd.choice([None, 4, 40]), sync=rnd.choice([None, None, 4 if enc == "FM" else 10, 12 if enc == "FM" else 14]))
    deleted = [r for r in range(n) if f[2 * r + 1] == "deleted"]
    t = mkflux.build_track(enc, 5, 0, secs, deleted=deleted, **gaps)
    for i, fl in enumerate(f):
        if fl in ("crc", "nomark"):
            mkflux.damage(t, i, fl, rnd)
    cells = t.cells
    cut = case["cut"]
    if cut < len(f):
        if case.get("partial"):
            it = t.items[cut]
            end = rnd.randrange(it["body"] + 2, it["end"] - 8)
        else:
            end = t.items[cut]["sync"] if cut < len(t.items) else len(cells)
            # keep part of the gap before the absent item
            end = max(t.items[cut - 1]["end"] if cut > 0 else 0, end - rnd.randrange(0, 16))
        cells = cells[:end]
    return t, cells


def decode(bdir, lines, trace_path=None):
    class R:
        pass
    try:
        p = subprocess.run([common.exe(bdir, "h_track")], input="\n".join(lines) + "\n", stdout=subprocess.PIPE, stderr=subprocess.PIPE,
                           text=True, timeout=600, env=dict(os.environ, **common.SAN_ENV, **({"BEEBTOOLS_VERIF_TRACE": trace_path} if trace_path else {})))
        outs = p.stdout.split("\n")
        return outs, p
    except subprocess.TimeoutExpired as ex:
        # a decoder that never returns: everything decoded so far is kept, the caller reports the input it stopped at
        p = R()
        p.returncode = -999
        out = ex.stdout or ""
        if isinstance(out, bytes):
            out = out.decode("latin1")
        p.stderr = "h_track did not finish within 600 s (decoder hang)"
        return out.split("\n"), p


def yields_of(out_line, nsec):
    """h_track JSON line -> [[addr rec (1-based), payload rec (1-based, 0 unknown), datacrc_good]]"""
    res = []
    ys = json.loads(out_line)
    stamp_to_rec = {mkdisc.stamp(SALT, r): r + 1 for r in range(max(nsec, 32))}
    for cyl, head, rec, ln, datahex, crchex in ys:
        data = bytes.fromhex(datahex)
        crc = bytes.fromhex(crchex)
        good = 1 if mkflux.crc16(b"\xfb" + data + crc) == 0 or mkflux.crc16(b"\xfb" + data + crc, mkflux.crc16(b"\xA1\xA1\xA1")) == 0 else 0
        res.append([rec + 1, stamp_to_rec.get(data, 0), good])
    return res


def model_trace_validation(chk, trace_path, meta, scratch, per_enc=400):
    """Hook events (decoder decisions) of the decode cases -> TraceTrackM: is the real decoder's decision sequence a behaviour
    of Track.tla's LookId/LookData for the injected faults?  Reported as model drift only."""
    import json
    if not os.path.exists(trace_path):
        return dict(status="no hook events (built without the verif-hook commit?)")
    groups, cur = {}, None
    for ln in open(trace_path):
        try:
            e = json.loads(ln)
        except ValueError:
            continue
        if e.get("e") == "line":
            cur = e["n"]
            groups[cur] = []
        elif cur is not None:
            groups[cur].append(e)
    res = {}
    for enc in ("FM", "MFM"):
        out = []
        n = 0
        for i, (kind, menc, c) in enumerate(meta):
            if kind != "decode" or menc != enc or i not in groups:
                continue
            out.append(dict(e="case", faults=c["faults"], cut=c["cut"], partial=bool(c["partial"])))
            out += [ev for ev in groups[i] if ev.get("enc") == enc]
            out.append(dict(e="end"))
            n += 1
            if n >= per_enc:
                break
        tp = os.path.join(scratch, "mtrace-%s.ndjson" % enc)
        with open(tp, "w") as f:
            for ev in out:
                f.write(json.dumps(ev) + "\n")
        r = common.tlc("TraceTrackM", "TraceTrackM_%s.cfg" % enc, workers=1, env={"TRACE": tp}, timeout=900, want_cases=False, deque=True)
        chk.add_tlc("TraceTrackM_%s" % enc, r)
        accepted = r.violated == "NotAccepted"
        res[enc] = dict(cases=n, events=len(out), accepted=accepted)
        if accepted:
            chk.traces += n
        else:
            chk.drift += 1
    return res
