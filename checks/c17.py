"""C17 - no command returns bytes from outside the volume or surface being read.
Disc.tla (walk through Volume::Access -> FileView -> file vs. requirement ROutcome) checked by TLC; every case is
scaled to real images of each region kind (Acorn/Watford whole surface, both sides of a .dsd, an MMB slot, a truncated
image, Opus volumes mid/last) with stamped sectors; type --binary / extract-files observations judged by TraceDisc.tla."""
import os, json
import common, discread


def run(chk, tier, seed):
    bdir = common.build("ndebug")
    dfs = common.exe(bdir, "dfs")
    chk.rule = ("cases = every (region kind, start, whole sectors, partial bytes) Disc.tla explores: entries ending before, at and "
                "past the end of volume / surface / file; each scaled to real images; evaluation = one command on one image; "
                "non-trivial = extent within 2 sectors of a boundary or beyond it; distinct by (image kind, start, length, command)")
    chk.assumptions = ["every data sector carries a unique stamp (shake128 of surface salt and lba); stamp lookup is the projection",
                       "zero-length entries whose start sector does not exist are unspecified (accepted either way)"]
    cfg = "Disc_small.cfg" if tier == "quick" else "Disc_thorough.cfg"
    r = common.tlc("Disc", cfg, coverage=True)
    chk.add_tlc(cfg, r)
    if r.violated:
        chk.violation("model:" + r.violated, "Disc.tla: implementation model violates %s\n%s" % (r.violated, "\n".join(r.cex[:40])), dict(spec="Disc.tla"))
    if r.coverage.get("ReadSector", (0, 0))[0] == 0:
        raise common.MachineryError("vacuous: ReadSector never taken")
    cases = {json.dumps(c, sort_keys=True): c for c in r.cases}
    keys = sorted(cases)
    chk.exhaustive = True
    with common.Scratch("c17") as scratch:
        def do(ik):
            i, k = ik
            sub = os.path.join(scratch, "j%d" % (i % 32), str(i))
            os.makedirs(sub, exist_ok=True)
            evs = []
            rs = []
            for j, c in enumerate(discread.concretise(cases[k], sub, "c%d" % i, with_low=(i % 3 == 0))):
                evs += discread.observe_read(dfs, c, sub, i * 10 + j, rs=rs if (tier != "quick" or i % 4 == 0) else None)
            if i % (3 if tier == "quick" else 1) == 0:
                for j, c in enumerate(discread.concretise(cases[k], sub, "l%d" % i, long_len=True)):
                    if c["start"] >= 8 and c["kind"].split("-")[0] in ("DFS", "WDFS", "opus", "mmb"):
                        evs += discread.observe_read(dfs, c, sub, 1000000 + i * 10 + j)
            import shutil
            shutil.rmtree(sub, ignore_errors=True)
            return evs, rs
        both = common.pmap(do, list(enumerate(keys)))
        allev = [e for evs, _ in both for e in evs]
        # ReadStack.tla: the same reads seen from inside - every layer's event replayed through the specification: the body read stays
        # inside the entry and the volume (Volume::Access refuses at the volume's length), the view computes the specified position
        import readtrace
        rs_runs = [r_ for _, rs in both for r_ in rs]
        readtrace.validate(chk, rs_runs, scratch, "readstack")
        for e in allev:
            if e["e"] != "read":
                continue
            g = e["g"]
            b = min(g["L"], g["S"] - g["o"], g["F"] - g["o"])
            end = e["start"] + e["nsec"] + (1 if e["rem"] else 0)
            chk.case((e["kind"], e["start"], e["nsec"], e["rem"], e["cmd"]), nontrivial=end >= b - 2)
        # catalogues that claim more sectors than the surface has (HDFS: top bit of the title adds 512 to the total):
        # extract-unused walks up to the claimed total and must not deliver a neighbouring slot / side
        import mkdisc, shutil
        conf = []
        for kind in ("mmb", "dsd"):
            n = 800 if kind == "mmb" else 400
            surf = []
            for k in range(3 if kind == "mmb" else 2):
                img = mkdisc.blank_surface(n, 70 + k)
                s0, s1 = mkdisc.catalog_fragment(b"\xc8DFS", 0, 0, n - 300, [mkdisc.entry("A", length=256, start=10)], byte6_extra=8)
                mkdisc.put(img, 0, s0); mkdisc.put(img, 1, s1)
                surf.append(img)
            path = os.path.join(scratch, "claim." + kind)
            if kind == "mmb":
                mkdisc.write(path, mkdisc.container_mmb({k: bytes(v) for k, v in enumerate(surf)}))
            else:
                mkdisc.write(path, mkdisc.container_interleaved(surf[0], surf[1], 10))
            st = mkdisc.Stamps()
            for k in range(len(surf)):
                st.add(70 + k, n)
            dest = os.path.join(scratch, "claim-" + kind)
            os.makedirs(dest)
            o = common.run([dfs, "--file", path, "--drive", "0", "extract-unused", dest], timeout=60)
            foreign = 0
            nfiles = 0
            for fn in os.listdir(dest):
                nfiles += 1
                data = open(os.path.join(dest, fn), "rb").read()
                for sg in st.segments(data):
                    if sg is None or sg[0] != 70:
                        foreign += 1
            shutil.rmtree(dest, ignore_errors=True)
            conf.append(dict(e="confine", kind=kind + "-hdfs-claim", cmd="extract-unused", foreign=foreign, files=nfiles, rc=o.rc if o.rc is not None else -9,
                             err=1 if o.err.strip() else 0, clean=o.ok_alphabet()))
            chk.case((kind, "hdfs-claim", "extract-unused"))
        allev += conf
        opus_tables(chk, dfs, scratch, tier)
        chk.sample(allev[len(allev) // 2])
        chk.sample(allev[-1])

        def describe(e):
            if e["e"] == "confine":
                return ("%s:%s" % (e["kind"], e["cmd"]), "%s on a %s image whose catalogue claims more sectors than the surface has: %d chunks from "
                        "another surface delivered in %d files, rc=%s" % (e["cmd"], e["kind"], e["foreign"], e["files"], e["rc"]), e)
            return ("%s:%s" % (e["kind"], e["cmd"]),
                    "%s on %s image: entry start=%d sectors=%d+%dB in region %r -> rc=%s stderr=%s delivered=%d chunks (%d foreign) %s"
                    % (e["cmd"], e["kind"], e["start"], e["nsec"], e["rem"], e["g"], e["rc"], "yes" if e["err"] else "EMPTY",
                       len(e["segs"]), e["foreign"], e["segs"][-3:]), e)
        discread.judge(chk, allev, scratch, describe)
        chk.traces += len(keys)


def opus_tables(chk, dfs, scratch, tier):
    """OpusTable.tla: every start-track table over the model's values (volumes in any track order, one-track volumes, a volume
    ending at the end of the disc): one disc per self-consistent table, in every volume a file that ends on the volume's last
    sector and one that reaches one sector past it; the reads are judged by TraceOpusTable.tla and their hook events by
    TraceReadStack.tla with the extents the requirement defines as context."""
    import mkdisc, readtrace
    r = common.tlc("OpusTable", "OpusTable.cfg")
    chk.add_tlc("OpusTable.cfg", r)
    if r.violated:
        chk.violation("model:" + r.violated, "OpusTable.tla: %s\n%s" % (r.violated, "\n".join(r.cex[:30])), dict(spec="OpusTable.tla"))
    cases = sorted({json.dumps(c, sort_keys=True): c for c in r.cases}.values(), key=lambda c: json.dumps(c, sort_keys=True))
    good = [c for c in cases if c["ok"]]
    if tier == "quick":
        good = [c for i, c in enumerate(good) if i % 2 == 0 or len(c["vols"]) >= 3]
    salt = 77

    def do(ic):
        i, c = ic
        vols = []
        for k, x in enumerate(c["vols"]):
            L = min(x["len"], 1023)            # start sectors are 10-bit fields
            ents = [mkdisc.entry("OVER", length=512, start=L - 1), mkdisc.entry("F", length=3 * 256 - 7, start=L - 4), mkdisc.entry("LOW", length=100, start=0)]
            vols.append(dict(letter="ABCDEFGH"[k], start_track=c["table"][k], title=b"VOL" + bytes([65 + k]), entries=ents, total=L))
        img = mkdisc.surface_opus(80, salt, vols)
        path = mkdisc.write(os.path.join(scratch, "ot%d.sdd" % i), bytes(img))
        st = mkdisc.Stamps()
        st.add(salt, 1440)
        evs, rs = [], []
        for k, x in enumerate(c["vols"]):
            L = min(x["len"], 1023)
            for nm, want in (("F", [L - 4, L - 3, L - 2]), ("OVER", [L - 1, L]), ("LOW", [0])):
                o, tev = readtrace.record([dfs, "--file", path, "type", "--binary", ":0%s.$.%s" % ("ABCDEFGH"[k], nm)], scratch, "ot%d-%d%s" % (i, k, nm),
                                          ctx=dict(kind="plain1", cyl=80, spt=18, vols=[[v["origin"], v["len"]] for v in c["vols"]]))
                lbas, foreign = [], 0
                for sg in st.segments(o.out, salt, x["origin"] + want[0]):
                    if sg is None or sg[0] != salt:
                        foreign += 1
                    else:
                        lbas.append(sg[1])
                evs.append(dict(e="opus", table=c["table"], i=k + 1, name=nm, want=want, lbas=lbas, foreign=foreign, rc=o.rc if o.rc is not None else -9,
                                errempty=0 if o.err.strip() else 1, err=o.err.decode("latin1")[-120:]))
                rs.append(("Opus table %r volume %s: type %s (rc=%s)" % (c["table"], "ABCDEFGH"[k], nm, o.rc), tev))
        os.unlink(path)
        return evs, rs
    both = common.pmap(do, list(enumerate(good)))
    events = [e for evs, _ in both for e in evs]
    for e in events:
        chk.case(("opus-table", tuple(e["table"]), e["i"], e["name"]))
    trace = os.path.join(scratch, "opus-trace.ndjson")
    with open(trace, "w") as f:
        for e in events:
            f.write(json.dumps(e) + "\n")
    ok, tr = common.validate_trace("TraceOpusTable", "TraceOpusTable.cfg", trace, timeout=1200)
    chk.add_tlc("TraceOpusTable", tr)
    chk.traces += len(events)
    if not ok or not tr.verdicts:
        raise common.MachineryError("TraceOpusTable did not consume the whole trace:\n" + tr.output[-3000:])
    for ln in sorted(tr.verdicts[-1]["bad"]):
        e = events[ln - 1]
        chk.violation("opus-table:%s" % e["name"], "Opus volume table %r, volume %s, `type %s` (sectors %r of the volume): rc=%s, delivered image sectors %r, %d foreign "
                      "chunks, stderr %r" % (e["table"], "ABCDEFGH"[e["i"] - 1], e["name"], e["want"], e["rc"], e["lbas"], e["foreign"], e["err"]), dict(event=e))
    readtrace.validate(chk, [r_ for _, rs in both for r_ in rs], scratch, "readstack-opus")
    chk.extra["opus_tables"] = len(good)


def replay(chk, path):
    run(chk, "quick", 1)
