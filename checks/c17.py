"""C17 - no command returns bytes from outside the volume or surface being read.
Disc.tla (walk through Volume::Access -> FileView -> file vs. requirement ROutcome) checked by TLC; every case is
scaled to real images of each region kind (Acorn/Watford whole surface, both sides of a .dsd, an MMB slot, a truncated
image, Opus volumes mid/last) with stamped sectors; type --binary / extract-files observations judged by TraceDisc.tla."""
import os, json
import common, discread


def run(chk, tier, seed):
    bdir = common.build("ndebug")
    dfs = common.exe(bdir, "dfs")
    chk.rule = ("cases = every (region kind, start, whole sectors, partial bytes) Disc.tla explores: entries ending before, at and "
                "past the end of volume / surface / file; each scaled to real images; evaluation = one command on one image; "
                "non-trivial = extent within 2 sectors of a boundary or beyond it; distinct by (image kind, start, length, command)")
    chk.assumptions = ["every data sector carries a unique stamp (shake128 of surface salt and lba); stamp lookup is the projection",
                       "zero-length entries whose start sector does not exist are unspecified (accepted either way)"]
    cfg = "Disc_small.cfg" if tier == "quick" else "Disc_thorough.cfg"
    r = common.tlc("Disc", cfg, coverage=True)
    chk.add_tlc(cfg, r)
    if r.violated:
        chk.violation("model:" + r.violated, "Disc.tla: implementation model violates %s\n%s" % (r.violated, "\n".join(r.cex[:40])), dict(spec="Disc.tla"))
    if r.coverage.get("ReadSector", (0, 0))[0] == 0:
        raise common.MachineryError("vacuous: ReadSector never taken")
    cases = {json.dumps(c, sort_keys=True): c for c in r.cases}
    keys = sorted(cases)
    chk.exhaustive = True
    with common.Scratch("c17") as scratch:
        def do(ik):
            i, k = ik
            sub = os.path.join(scratch, "j%d" % (i % 32), str(i))
            os.makedirs(sub, exist_ok=True)
            evs = []
            for j, c in enumerate(discread.concretise(cases[k], sub, "c%d" % i, with_low=(i % 3 == 0))):
                evs += discread.observe_read(dfs, c, sub, i * 10 + j)
            import shutil
            shutil.rmtree(sub, ignore_errors=True)
            return evs
        allev = [e for evs in common.pmap(do, list(enumerate(keys))) for e in evs]
        for e in allev:
            if e["e"] != "read":
                continue
            g = e["g"]
            b = min(g["L"], g["S"] - g["o"], g["F"] - g["o"])
            end = e["start"] + e["nsec"] + (1 if e["rem"] else 0)
            chk.case((e["kind"], e["start"], e["nsec"], e["rem"], e["cmd"]), nontrivial=end >= b - 2)
        # catalogues that claim more sectors than the surface has (HDFS: top bit of the title adds 512 to the total):
        # extract-unused walks up to the claimed total and must not deliver a neighbouring slot / side
        import mkdisc, shutil
        conf = []
        for kind in ("mmb", "dsd"):
            n = 800 if kind == "mmb" else 400
            surf = []
            for k in range(3 if kind == "mmb" else 2):
                img = mkdisc.blank_surface(n, 70 + k)
                s0, s1 = mkdisc.catalog_fragment(b"\xc8DFS", 0, 0, n - 300, [mkdisc.entry("A", length=256, start=10)], byte6_extra=8)
                mkdisc.put(img, 0, s0); mkdisc.put(img, 1, s1)
                surf.append(img)
            path = os.path.join(scratch, "claim." + kind)
            if kind == "mmb":
                mkdisc.write(path, mkdisc.container_mmb({k: bytes(v) for k, v in enumerate(surf)}))
            else:
                mkdisc.write(path, mkdisc.container_interleaved(surf[0], surf[1], 10))
            st = mkdisc.Stamps()
            for k in range(len(surf)):
                st.add(70 + k, n)
            dest = os.path.join(scratch, "claim-" + kind)
            os.makedirs(dest)
            o = common.run([dfs, "--file", path, "--drive", "0", "extract-unused", dest], timeout=60)
            foreign = 0
            nfiles = 0
            for fn in os.listdir(dest):
                nfiles += 1
                data = open(os.path.join(dest, fn), "rb").read()
                for sg in st.segments(data):
                    if sg is None or sg[0] != 70:
                        foreign += 1
            shutil.rmtree(dest, ignore_errors=True)
            conf.append(dict(e="confine", kind=kind + "-hdfs-claim", cmd="extract-unused", foreign=foreign, files=nfiles, rc=o.rc if o.rc is not None else -9,
                             err=1 if o.err.strip() else 0, clean=o.ok_alphabet()))
            chk.case((kind, "hdfs-claim", "extract-unused"))
        allev += conf
        chk.sample(allev[len(allev) // 2])
        chk.sample(allev[-1])

        def describe(e):
            if e["e"] == "confine":
                return ("%s:%s" % (e["kind"], e["cmd"]), "%s on a %s image whose catalogue claims more sectors than the surface has: %d chunks from "
                        "another surface delivered in %d files, rc=%s" % (e["cmd"], e["kind"], e["foreign"], e["files"], e["rc"]), e)
            return ("%s:%s" % (e["kind"], e["cmd"]),
                    "%s on %s image: entry start=%d sectors=%d+%dB in region %r -> rc=%s stderr=%s delivered=%d chunks (%d foreign) %s"
                    % (e["cmd"], e["kind"], e["start"], e["nsec"], e["rem"], e["g"], e["rc"], "yes" if e["err"] else "EMPTY",
                       len(e["segs"]), e["foreign"], e["segs"][-3:]), e)
        discread.judge(chk, allev, scratch, describe)
        chk.traces += len(keys)


def replay(chk, path):
    run(chk, "quick", 1)
