"""C17 - no command returns bytes from outside the volume or surface being read.
Disc.tla (walk through Volume::Access -> FileView -> file vs. requirement ROutcome) checked by TLC; every case is
scaled to real images of each region kind (Acorn/Watford whole surface, both sides of a .dsd, an MMB slot, a truncated
image, Opus volumes mid/last) with stamped sectors; type --binary / extract-files observations judged by TraceDisc.tla."""
import os, json
import common, discread


def run(chk, tier, seed):
    bdir = common.build("ndebug")
    dfs = common.exe(bdir, "dfs")
    chk.rule = ("cases = every (region kind, start, whole sectors, partial bytes) Disc.tla explores: entries ending before, at and "
                "past the end of volume / surface / file; each scaled to real images; evaluation = one command on one image; "
                "non-trivial = extent within 2 sectors of a boundary or beyond it; distinct by (image kind, start, length, command)")
    chk.assumptions = ["every data sector carries a unique stamp (shake128 of surface salt and lba); stamp lookup is the projection",
                       "zero-length entries whose start sector does not exist are unspecified (accepted either way)"]
    cfg = "Disc_small.cfg" if tier == "quick" else "Disc_thorough.cfg"
    r = common.tlc("Disc", cfg, coverage=True)
    chk.add_tlc(cfg, r)
    if r.violated:
        chk.violation("model:" + r.violated, "Disc.tla: implementation model violates %s\n%s" % (r.violated, "\n".join(r.cex[:40])), dict(spec="Disc.tla"))
    if r.coverage.get("ReadSector", (0, 0))[0] == 0:
        raise common.MachineryError("vacuous: ReadSector never taken")
    cases = {json.dumps(c, sort_keys=True): c for c in r.cases}
    keys = sorted(cases)
    chk.exhaustive = True
    with common.Scratch("c17") as scratch:
        def do(ik):
            i, k = ik
            sub = os.path.join(scratch, "j%d" % (i % 32), str(i))
            os.makedirs(sub, exist_ok=True)
            evs = []
            for j, c in enumerate(discread.concretise(cases[k], sub, "c%d" % i, with_low=(i % 3 == 0))):
                evs += discread.observe_read(dfs, c, sub, i * 10 + j)
            import shutil
            shutil.rmtree(sub, ignore_errors=True)
            return evs
        allev = [e for evs in common.pmap(do, list(enumerate(keys))) for e in evs]
        for e in allev:
            g = e["g"]
            b = min(g["L"], g["S"] - g["o"], g["F"] - g["o"])
            end = e["start"] + e["nsec"] + (1 if e["rem"] else 0)
            chk.case((e["kind"], e["start"], e["nsec"], e["rem"], e["cmd"]), nontrivial=end >= b - 2)
        chk.sample(allev[len(allev) // 2])
        chk.sample(allev[-1])

        def describe(e):
            return ("%s:%s" % (e["kind"], e["cmd"]),
                    "%s on %s image: entry start=%d sectors=%d+%dB in region %r -> rc=%s stderr=%s delivered=%d chunks (%d foreign) %s"
                    % (e["cmd"], e["kind"], e["start"], e["nsec"], e["rem"], e["g"], e["rc"], "yes" if e["err"] else "EMPTY",
                       len(e["segs"]), e["foreign"], e["segs"][-3:]), e)
        discread.judge(chk, allev, scratch, describe)
        chk.traces += len(keys)


def replay(chk, path):
    run(chk, "quick", 1)
