"""C04 - sector-dump containers map (drive, track, sector) to the documented offset.
Containers.tla: TLC proves the FileView arithmetic built by img_sdf.cc / img_mmb.cc equals the documented offset for
every geometry and every sector, is injective across sides and fails beyond the end; container files whose every
sector is stamped with its own file position are read back through dump-sector (boundary sectors from TLC, complete
sweeps in the thorough tier) and TraceContainers.tla judges where each shown sector came from; MMB slot status bytes
0..255 are judged against doc/mmb.5."""
import os, json, re
import common, mkdisc, readtrace
from discread import parse_dump

SALT = 77


def make_container(kind, cyl, spt, scratch, tag, nocat_side1=False):
    """Container file whose sector i (file position) is stamp(SALT, i), except for a valid catalogue at the
    documented place of (side, track 0, sectors 0/1) of every surface.  Returns (path, drives{side:drive}, nfile)."""
    n1 = cyl * spt
    if kind == "plain1":
        nfile, sides = n1, [0]
        ext = "ssd" if spt == 10 else "sdd"
    elif kind == "inter":
        nfile, sides = 2 * n1, [0, 1]
        ext = "dsd" if spt == 10 else "ddd"
    else:
        return None
    img = mkdisc.blank_surface(nfile, SALT)
    # the catalogue declares the whole surface; counts of 1024 and more use bit 2 of byte 6 (bit 10 of the count), which the
    # geometry prober reads (get_dfs_sector_count) although the catalogue reader proper keeps 10 bits
    for h in sides:
        if h == 1 and nocat_side1:
            continue          # a side that was never formatted with a file system: still a surface, still at its documented place
        off = (h * spt) if kind == "inter" else h * n1
        s0, s1 = mkdisc.catalog_fragment(b"SIDE%d" % h, 0, 0, n1 & 1023, [], byte6_extra=4 if n1 & 1024 else 0)
        mkdisc.put(img, off, s0)
        mkdisc.put(img, off + 1, s1)
    path = mkdisc.write(os.path.join(scratch, "%s.%s" % (tag, ext)), bytes(img))
    return path, {0: "0", 1: "2"}, nfile


def gz_member(data, fname=None):
    """One RFC 1952 member (optionally with a file-name field, used as padding)."""
    import zlib, struct
    co = zlib.compressobj(6, zlib.DEFLATED, -15)
    return (bytes([0x1F, 0x8B, 8, 8 if fname else 0, 0, 0, 0, 0, 0, 3]) + (fname + b"\0" if fname else b"") + co.compress(data) + co.flush() +
            struct.pack("<II", zlib.crc32(data) & 0xFFFFFFFF, len(data) & 0xFFFFFFFF))


def shown_sector(o, stamps):
    """dump-sector output -> file sector index / -1 clean failure / -2 anything else"""
    if o.rc != 0:
        return -1 if (o.ok_alphabet() and o.err.strip()) else -2
    rows = parse_dump(o.out)
    if rows is None or len(rows) != 32:
        return -2
    data = bytes(b for r in rows for b in r["hex"])
    og = stamps.origin(data)
    return og[1] if og else -2


def run(chk, tier, seed):
    bdir = common.build("ndebug")
    dfs = common.exe(bdir, "dfs")
    quick = tier == "quick"
    chk.rule = ("TLC enumerates every (container kind, geometry, side, track, sector) incl. one past the end; replay = dump-sector of the "
                "boundary sectors (first/second/last track x sectors 0,1,2,last) of every reachable geometry, complete sweeps in thorough, "
                "MMB slots 0,1,2,255,509,510 and all 256 slot status bytes; non-trivial = sector other than (0,0); distinct by "
                "(kind, geometry, side, track, sector)")
    chk.assumptions = ["16-sector geometries and the second side of a two-sided .ssd/.sdd are never selected by the geometry probe for "
                       "catalogues the 10-bit total can express, so they are covered at spec level only",
                       "sectors holding the catalogue (track 0 sectors 0,1) are not stamps and are skipped in the replay"]
    r = common.tlc("Containers", "Containers_small.cfg")
    chk.add_tlc("Containers_small.cfg", r)
    if r.violated:
        chk.violation("model:" + r.violated, "Containers.tla: view arithmetic violates %s\n%s" % (r.violated, "\n".join(r.cex[:30])), dict(spec="Containers.tla"))
    cases = sorted({json.dumps(c, sort_keys=True): c for c in r.cases}.values(), key=lambda c: json.dumps(c, sort_keys=True))
    # the same invariants over geometries nobody formats a disc with (1..85 tracks x 1..20 sectors, ten MMB slots): 517 200 states, no emission
    rd = common.tlc("Containers", "Containers_deep.cfg", want_cases=False)
    chk.add_tlc("Containers_deep.cfg", rd)
    if rd.violated:
        chk.violation("model:deep:" + rd.violated, "Containers.tla (deep geometries): %s\n%s" % (rd.violated, "\n".join(rd.cex[:30])), dict(spec="Containers.tla"))
    chk.exhaustive = True
    events = []
    with common.Scratch("c04") as scratch:
        stamps = mkdisc.Stamps()
        stamps.add(SALT, 2 * 80 * 18 + 10)
        files = {}
        for kind in ("plain1", "inter"):
            for cyl in (35, 40, 80):
                for spt in (10, 18):
                    files[(kind, cyl, spt)] = make_container(kind, cyl, spt, scratch, "%s-%d-%d" % (kind, cyl, spt))
        # MMB: slots 0,1,2,255,509,510 present; every sector of the file stamped by file position
        mmb_slots = [0, 1, 2, 255, 509, 510]
        mstamps = mkdisc.Stamps()
        hdr = bytearray(mkdisc.container_mmb({}, nslots_physical=0, status={i: 0x0F for i in mmb_slots}))
        mpath = os.path.join(scratch, "all.mmb")
        with open(mpath, "wb") as f:
            f.write(hdr)
            for slot in range(511):
                if slot in mmb_slots:
                    base = 32 + slot * 800
                    body = bytearray(b"".join(mkdisc.stamp(SALT + 1 + mmb_slots.index(slot), base + i) for i in range(800)))
                    s0, s1 = mkdisc.catalog_fragment(b"SLOT%d" % slot, 0, 0, 800, [])
                    body[0:256], body[256:512] = s0, s1
                    f.write(body)
                else:
                    f.seek(204800, 1)
            f.truncate(8192 + 511 * 204800)
        for k, slot in enumerate(mmb_slots):
            mstamps.salts[SALT + 1 + k] = (800, None)
        jobs = []
        for c in cases:
            if c["t"] == 0 and c["s"] in (0, 1):
                continue
            if c["kind"] == "mmb":
                jobs.append(c)
            elif c["kind"] in ("plain1", "inter") and c["spt"] in (10, 18):
                jobs.append(c)
        if not quick:
            seen = {json.dumps(j, sort_keys=True) for j in jobs}
            for (kind, cyl, spt) in files:
                for h in ([0] if kind == "plain1" else [0, 1]):
                    for t in range(cyl):
                        for s in range(spt):
                            c = dict(kind=kind, cyl=cyl, spt=spt, side=h, t=t, s=s)
                            if (t == 0 and s < 2) or json.dumps(c, sort_keys=True) in seen:
                                continue
                            jobs.append(c)
            for slot in mmb_slots:
                for t in range(80):
                    for s in range(10):
                        if t == 0 and s < 2:
                            continue
                        jobs.append(dict(kind="mmb", cyl=80, spt=10, side=slot, t=t, s=s))

        # the same files as two-member gzip streams whose first member ends exactly on a 512-byte boundary of the compressed file
        # (the reader's input-buffer size): the surface behind X.gz is documented to be the surface behind X, so every sector of it
        # - those stored in the second member included - is at the same documented offset
        gzfiles = {}
        for key, (path_, drives_, nfile_) in files.items():
            data = open(path_, "rb").read()
            m1 = gz_member(data[: len(data) // 2])
            m1 = gz_member(data[: len(data) // 2], fname=b"p" + b"q" * ((0 - len(m1) - 2) % 512))
            if len(m1) % 512 == 0:
                sub = os.path.join(scratch, "gz2")
                os.makedirs(sub, exist_ok=True)
                gzfiles[key] = mkdisc.write(os.path.join(sub, os.path.basename(path_) + ".gz"), m1 + gz_member(data[len(data) // 2:]))
        chk.extra["two_member_gz_containers"] = len(gzfiles)

        def do(c):
            if c["kind"] == "mmb":
                o = common.run([dfs, "--drive-first", "--file", mpath, "dump-sector", str(c["side"]), str(c["t"]), str(c["s"])], timeout=60)
                if o.rc == 0:
                    rows = parse_dump(o.out)
                    data = bytes(b for rr in rows for b in rr["hex"]) if rows else b""
                    base = 32 + c["side"] * 800
                    obs = -2
                    salt = SALT + 1 + mmb_slots.index(c["side"])
                    for i in range(max(0, c["t"] * 10 + c["s"] - 3), min(800, c["t"] * 10 + c["s"] + 4)):
                        if mkdisc.stamp(salt, base + i) == data:
                            obs = base + i
                else:
                    obs = -1 if (o.ok_alphabet() and o.err.strip()) else -2
            else:
                path, drives, nfile = files[(c["kind"], c["cyl"], c["spt"])]
                # (numbers are decimal however they are written: every third job writes them zero-padded, as `seq -w` or %02d would)
                pad = (lambda n: "%03d" % n) if (c["t"] + c["s"] + c["side"]) % 3 == 0 else str
                if (c["t"] * 7 + c["s"] + c["side"]) % 4 == 1:
                    path = gzfiles.get((c["kind"], c["cyl"], c["spt"]), path)
                o = common.run([dfs, "--file", path, "dump-sector", drives[c["side"]], pad(c["t"]), pad(c["s"])], timeout=30)
                obs = shown_sector(o, stamps)
            return dict(c, e="sector", obs=obs)
        events = common.pmap(do, jobs)
        # sessions with two image files of different geometry: each file's surfaces still map to that file's documented offsets
        # (nothing of one file's layout may carry over to the next)
        sel = [k for k in sorted(files) if k in (("plain1", 40, 10), ("plain1", 80, 18), ("inter", 80, 10), ("inter", 35, 18), ("plain1", 35, 10), ("inter", 40, 18))]
        sjobs = []
        for ka in sel:
            for kb in sel:
                if ka != kb and (not quick or (sel.index(ka) + sel.index(kb)) % 2 == 1):
                    sjobs.append((ka, kb))

        def do_session(pair):
            ka, kb = pair
            pa, pb = files[ka][0], files[kb][0]
            o = common.run([dfs, "--file", pa, "--file", pb, "--show-config", "help"], timeout=30)
            drv = {}
            for m in re.finditer(r"Drive (\d+): occupied, .*?(?:side (\d) of )?(?:non-)?interleaved file (\S+)", o.err.decode("latin1")):
                drv[(m.group(3), int(m.group(2) or 0))] = m.group(1)
            evs = []
            for key, path in ((ka, pa), (kb, pb)):
                kind, cyl, spt = key
                for h in ([0] if kind == "plain1" else [0, 1]):
                    d_ = drv.get((path, h))
                    for t, s_ in ((1, 0), (cyl - 1, spt - 1), (cyl, 0)):
                        if d_ is None:
                            obs = -2
                        else:
                            obs = shown_sector(common.run([dfs, "--file", pa, "--file", pb, "dump-sector", d_, str(t), str(s_)], timeout=30), stamps)
                        evs.append(dict(e="sector", kind=kind, cyl=cyl, spt=spt, side=h, t=t, s=s_, obs=obs, session="%s-%d-%d+%s-%d-%d" % (ka + kb)))
            return evs
        for evs in common.pmap(do_session, sjobs):
            events += evs
        chk.extra["two_file_sessions"] = len(sjobs)
        # a two-sided image whose second side carries no file system: its sectors are still where the documentation says
        # (80 tracks: the only geometry large enough, so the prober's "other side has a catalogue too" tie-break is not consulted;
        # a 40-track image of this kind is not recognised at all, which the statement does not cover)
        for cyl, spt in ((80, 10), (80, 18)):
            pth, drives, nfile = make_container("inter", cyl, spt, scratch, "nocat-%d-%d" % (cyl, spt), nocat_side1=True)
            for h in (0, 1):
                for t, s_ in ((0, 0), (0, 1), (1, 0), (cyl - 1, spt - 1), (cyl, 0), (cyl // 2, 3)):
                    if h == 0 and t == 0 and s_ < 2:
                        continue        # side 0's catalogue, not stamped
                    obs = shown_sector(common.run([dfs, "--file", pth, "dump-sector", drives[h], str(t), str(s_)], timeout=30), stamps)
                    events.append(dict(e="sector", kind="inter", cyl=cyl, spt=spt, side=h, t=t, s=s_, obs=obs, session="side1-without-catalogue"))
        for e in events:
            chk.case((e["kind"], e["cyl"], e["spt"], e["side"], e["t"], e["s"], e.get("session", "")), nontrivial=(e["t"], e["s"]) != (0, 0))
        chk.sample(events[0])
        chk.sample(events[-1])
        # geometry actually chosen for each container (ties the replay to the intended geometry)
        for (kind, cyl, spt), v in files.items():
            o = common.run([dfs, "--file", v[0], "--show-config", "help"], timeout=30)
            m = re.findall(r"Drive (\d+): occupied, .*? (\d+) tracks, (\d+) sectors per track", o.err.decode("latin1"))
            want = [(d, str(cyl), str(spt)) for d in (["0"] if kind == "plain1" else ["0", "2"])]
            if m != want:
                # not a C04 matter in itself (C13 owns the choice of geometry): recorded, and the sector observations above decide
                chk.extra.setdefault("geometry_not_as_intended", []).append(dict(kind=kind, cyl=cyl, spt=spt, attached=m))
                chk.drift += 1
        # ReadStack.tla: the hook events of every layer of a few reads of every container, replayed through the specification with
        # the container's kind and geometry as context: the FileView each attached drive reads through must be Layout.tla's View
        # and every position the view computes the one the specification computes
        rs_jobs = []
        for (kind, cyl, spt), (path, drives, nfile) in sorted(files.items()):
            for h, drv in sorted(drives.items()):
                if kind == "plain1" and h == 1:
                    continue
                for t, s_ in ((0, 2), (1, 0), (cyl - 1, spt - 1), (cyl, 0), (cyl // 2, spt // 2)):
                    rs_jobs.append((dict(kind=kind, cyl=cyl, spt=spt), [dfs, "--file", path, "dump-sector", drv, str(t), str(s_)]))
                rs_jobs.append((dict(kind=kind, cyl=cyl, spt=spt), [dfs, "--file", path, "cat", drv]))
        for slot in mmb_slots:
            for t, s_ in ((0, 2), (79, 9), (80, 0)):
                rs_jobs.append((dict(kind="mmb", cyl=80, spt=10), [dfs, "--drive-first", "--file", mpath, "dump-sector", str(slot), str(t), str(s_)]))

        def do_rs(ij):
            i, (ctx, argv) = ij
            o, evs = readtrace.record(argv, scratch, "c04-%d" % i, ctx=ctx)
            return ("%s %dx%d: dfs %s (rc=%s)" % (ctx["kind"], ctx["cyl"], ctx["spt"], " ".join(argv[3:]), o.rc), evs)
        rs_runs = common.pmap(do_rs, list(enumerate(rs_jobs)))
        for desc, evs in rs_runs:
            chk.case(("readstack", desc), nontrivial=len(evs) > 1)
        readtrace.validate(chk, rs_runs, scratch, "readstack")
        # ViewArith.tla: the view arithmetic for parameters no container produces (any skip / take / leave / total), through the real
        # FileView (h_view records the position it asks its media for); judged against the walk-defined requirement RTaken
        rv = common.tlc("ViewArith", "ViewArith.cfg")
        chk.add_tlc("ViewArith.cfg", rv)
        if rv.violated:
            chk.violation("model:viewarith:" + rv.violated, "ViewArith.tla: the closed formula differs from the walk: %s\n%s" % (rv.violated, "\n".join(rv.cex[:20])),
                          dict(spec="ViewArith.tla"))
        vcases = [dict(w=c["w"], x=c["x"]) for c in rv.cases]
        import random as _r
        rr = _r.Random(4)
        for _ in range(300 if quick else 3000):
            take = rr.choice([1, 2, 7, 10, 18, 255, 256, 800])
            vcases.append(dict(w=dict(skip=rr.choice([0, 1, 31, 32, 8192, 100000]), take=take, leave=rr.choice([0, 1, take, 3 * take, 1000]),
                                      total=rr.choice([1, take, 10 * take, 2500])), x=rr.choice([0, take - 1, take, 2 * take + 1, rr.randrange(2600)])))
        import subprocess as _sp
        inp = "".join("%d %d %d %d %d\n" % (c["w"]["skip"], c["w"]["take"], c["w"]["leave"], c["w"]["total"], c["x"]) for c in vcases)
        pv = _sp.run([common.exe(bdir, "h_view")], input=inp, stdout=_sp.PIPE, stderr=_sp.PIPE, text=True, timeout=600, env=dict(os.environ, **common.SAN_ENV))
        outs = pv.stdout.split("\n")
        if pv.returncode != 0 or len(outs) < len(vcases):
            chk.violation("h_view-crash", "h_view died after %d of %d lines: rc=%s %s" % (len(outs) - 1, len(vcases), pv.returncode, pv.stderr[-800:]), dict(line=len(outs)))
        else:
            vev = [dict(e="view", w=c["w"], x=c["x"], obs=(int(o) if o.lstrip("-").isdigit() else -2)) for c, o in zip(vcases, outs)]
            vtrace = os.path.join(scratch, "view-trace.ndjson")
            with open(vtrace, "w") as f:
                for e in vev:
                    f.write(json.dumps(e) + "\n")
            okv, trv = common.validate_trace("TraceViewArith", "TraceViewArith.cfg", vtrace, timeout=1800)
            chk.add_tlc("TraceViewArith", trv)
            chk.traces += len(vev)
            if not okv or not trv.verdicts:
                raise common.MachineryError("TraceViewArith did not consume the whole trace:\n" + trv.output[-2000:])
            for ln in sorted(trv.verdicts[-1]["bad"]):
                e = vev[ln - 1]
                chk.violation("view-arith", "FileView(skip=%d, take=%d, leave=%d, total=%d).read_block(%d) asked the media for sector %d" %
                              (e["w"]["skip"], e["w"]["take"], e["w"]["leave"], e["w"]["total"], e["x"], e["obs"]), dict(event=e))
            for e in vev:
                chk.case(("view", json.dumps(e["w"], sort_keys=True), e["x"]))
            chk.extra["view_arith_cases"] = len(vev)
        # MMB status bytes: slot i has status i (i in 0..255); data exists for slots 0 and 15 only
        st_path = os.path.join(scratch, "status.mmb")
        status = {i: i for i in range(256)}
        slots = {i: bytes(mkdisc.surface_dfs(800, 3, title=b"ST%d" % i)) for i in (0, 15)}
        mkdisc.write(st_path, mkdisc.container_mmb(slots, nslots_physical=16, status=status))

        def do_slot(i):
            o = common.run([dfs, "--drive-first", "--file", st_path, "cat", str(i)], timeout=60)
            if o.rc == 0 and o.out.startswith(b"ST%d " % i):
                obs = "present"
            elif o.rc != 0 and b"formatted" in o.err and o.ok_alphabet():      # "unformatted" or "(is it formatted?)"
                obs = "unformatted"
            else:
                obs = "other:rc=%s:%s" % (o.rc, o.err[-80:].decode("latin1"))
            return dict(e="slot", status=i, obs=obs)
        sl = common.pmap(do_slot, list(range(256)))
        for e in sl:
            chk.case(("slot", e["status"]))
        events += sl
        # MmbDir.tla: every neighbourhood of status bytes.  One image whose directory is a de Bruijn sequence over the model's status
        # bytes holds every case (a window of N consecutive slots) at some position, across directory-sector boundaries; every
        # slot has a formatted surface stored behind it, so a slot wrongly taken as present shows it
        rm = common.tlc("MmbDir", "MmbDir.cfg")
        chk.add_tlc("MmbDir.cfg", rm)
        if rm.violated:
            chk.violation("model:" + rm.violated, "MmbDir.tla: %s\n%s" % (rm.violated, "\n".join(rm.cex[:20])), dict(spec="MmbDir.tla"))
        windows = sorted({tuple(c["dir"]) for c in rm.cases})
        alphabet = sorted({b for w in windows for b in w})
        nwin = len(windows[0])
        def de_bruijn(kk, n):
            a = [0] * kk * n
            seq = []
            def db(t, p_):
                if t > n:
                    if n % p_ == 0:
                        seq.extend(a[1:p_ + 1])
                else:
                    a[t] = a[t - p_]
                    db(t + 1, p_)
                    for j in range(a[t - p_] + 1, kk):
                        a[t] = j
                        db(t + 1, t)
            db(1, 1)
            return seq
        seq = [alphabet[x] for x in de_bruijn(len(alphabet), nwin)]
        seq = [0x0F] * 13 + seq + seq[:nwin - 1]      # 13 leading slots so that windows straddle the first directory sector's end too
        covered = {tuple(seq[i:i + nwin]) for i in range(len(seq) - nwin + 1)}
        if not set(windows) <= covered:
            raise common.MachineryError("the directory sequence does not cover every window of MmbDir.tla")
        db_path = os.path.join(scratch, "dirseq.mmb")
        mkdisc.write(db_path, mkdisc.container_mmb({i: bytes(mkdisc.surface_dfs(800, 3, title=b"DB%d" % i)) for i in range(len(seq))},
                                                   status={i: st for i, st in enumerate(seq)}))

        def do_dslot(i):
            o = common.run([dfs, "--drive-first", "--file", db_path, "cat", str(i)], timeout=60)
            o2 = common.run([dfs, "--drive-first", "--file", db_path, "dump-sector", str(i), "0", "0"], timeout=60)
            if o.rc == 0 and o.out.startswith(b"DB%d " % i) and o2.rc == 0:
                obs = "present"
            elif o.rc != 0 and b"formatted" in o.err and o.ok_alphabet() and o2.rc != 0 and o2.ok_alphabet():
                obs = "unformatted"
            else:
                obs = "other:cat rc=%s dump-sector rc=%s:%s" % (o.rc, o2.rc, o.err[-80:].decode("latin1"))
            return dict(e="slot", status=seq[i], obs=obs, slot=i, before=seq[max(0, i - nwin + 1):i])
        dsl = common.pmap(do_dslot, list(range(len(seq))))
        for e in dsl:
            chk.case(("dirslot", tuple(e["before"]), e["status"], e["slot"] % 16))
        events += dsl
        chk.extra["mmb_directory_windows"] = len(windows)
        trace = os.path.join(scratch, "trace.ndjson")
        with open(trace, "w") as f:
            for e in events:
                f.write(json.dumps(e) + "\n")
        ok, tr = common.validate_trace("TraceContainers", "TraceContainers.cfg", trace, timeout=1200)
        chk.add_tlc("TraceContainers", tr)
        chk.traces += len(events)
        if not ok or not tr.verdicts:
            raise common.MachineryError("TraceContainers did not consume the whole trace:\n" + tr.output[-3000:])
        for ln in sorted(tr.verdicts[-1]["bad"]):
            e = events[ln - 1]
            if e["e"] == "sector":
                chk.violation("%s:%s%s" % (e["kind"], "beyond" if e["t"] >= e["cyl"] else "offset", ":two-files" if e.get("session") else ""),
                              "dump-sector side %d track %d sector %d of a %s %dx%d container%s showed file sector %d" %
                              (e["side"], e["t"], e["s"], e["kind"], e["cyl"], e["spt"], (" (session " + e["session"] + ")") if e.get("session") else "", e["obs"]),
                              dict(event=e))
            else:
                chk.violation("mmb-status" + (":after-%s" % "-".join("%02X" % b for b in e["before"][-1:]) if e.get("before") else ""),
                              "MMB slot %s with status byte 0x%02X (after slots with %r) observed as %s" % (e.get("slot", e["status"]), e["status"], e.get("before"), e["obs"]),
                              dict(event=e))


def replay(chk, path):
    run(chk, "quick", 1)
