"""C06 - track decoding never returns damaged or misaddressed sector data.
Track.tla: TLC explores every assignment of faults (intact / body damaged / mark destroyed / deleted-data) to the ID and
data fields of a track, every truncation point (between and inside fields), for the FM and the MFM decoder models, and
checks that every yielded sector pairs an address with the payload recorded under it, both intact.  Every case is
turned into a real bit-stream (faults placed at bit level, gap lengths varied) and decoded by the real decoders; whole
images (HFE, HxC MFM) with damaged sectors are read back through dfs; TraceTrack.tla judges the yields and reads."""
import os, json, random, shutil
import common, mkdisc, mkflux, discs
import fluxcheck as fc


def run(chk, tier, seed):
    bdir = common.build("san")
    dfs = common.exe(bdir, "dfs")
    rnd = random.Random(seed)
    quick = tier == "quick"
    chk.rule = ("cases = every (fault assignment over {ok, crc, nomark, deleted} for 3 sectors' ID and data fields) x every truncation "
                "(between / inside fields) from Track.tla, for FM and MFM, each concretised with varied gap and sync lengths; raw "
                "streams = seeded random bits and spliced fragments; image level = HFE / HxC MFM images with fault sets on several "
                "tracks, every sector of damaged tracks read back; non-trivial = case with at least one fault or truncation; distinct by "
                "(encoding, faults, cut, partial)")
    chk.assumptions = ["a 16-bit CRC does not accidentally validate a damaged field (damaged fields are re-checked by the generator)",
                       "sector payloads are stamps, so a payload identifies the record it was recorded under"]
    events = []
    lines = []
    meta = []
    for enc in ("FM", "MFM"):
        r = common.tlc("Track", "Track_%s.cfg" % enc, coverage=True)
        chk.add_tlc("Track_%s.cfg" % enc, r)
        if r.violated:
            chk.violation("model:%s:%s" % (enc, r.violated), "Track.tla (%s decoder model) violates %s\n%s" % (enc, r.violated, "\n".join(r.cex[:40])),
                          dict(spec="Track.tla", enc=enc))
        for act in ("LookId", "LookData"):
            if r.coverage.get(act, (0, 0))[0] == 0:
                raise common.MachineryError("vacuous: %s never taken" % act)
        cases = sorted({json.dumps(c, sort_keys=True): c for c in r.cases}.values(), key=lambda c: json.dumps(c, sort_keys=True))
        if len(cases) != 24192:
            raise common.MachineryError("Track %s: expected 24192 cases, got %d" % (enc, len(cases)))
        if quick:
            rnd.shuffle(cases)
            keep = [c for c in cases if c["cut"] == 6][:2200] + [c for c in cases if c["cut"] < 6][:800]
            cases = keep
        for c in cases:
            t, cells = fc.concrete_track(enc, c, rnd)
            lines.append("%s %s" % (enc, mkflux.cells_to_bytes_lsb(cells).hex()))
            meta.append(("decode", enc, c))
    # raw adversarial streams (I1 only)
    nraw = 200 if quick else 3000
    for i in range(nraw):
        enc = ("FM", "MFM")[i % 2]
        secs = {r: mkdisc.stamp(fc.SALT, r) for r in range(4)}
        t = mkflux.build_track(enc, 1, 0, secs)
        cells = list(t.cells)
        kind = i % 4
        if kind == 0:
            cells = [rnd.getrandbits(1) for _ in range(rnd.choice([0, 1, 7, 47, 48, 49, 500, 5000]))]
        elif kind == 1:      # splice: fragments of a valid track in random order (orphan data fields, repeated IDs)
            pieces = []
            for _ in range(6):
                it = rnd.choice(t.items)
                pieces += t.cells[it["sync"] - 16:it["end"] + 16]
            cells = pieces
        elif kind == 2:      # bit slips and flips anywhere
            for _ in range(rnd.randint(1, 6)):
                p = rnd.randrange(len(cells))
                if rnd.random() < 0.5:
                    cells[p] ^= 1
                elif rnd.random() < 0.5:
                    del cells[p]
                else:
                    cells.insert(p, rnd.getrandbits(1))
        else:                # zeroed run
            a = rnd.randrange(len(cells))
            for p in range(a, min(len(cells), a + rnd.choice([16, 200, 3000]))):
                cells[p] = 0
        lines.append("%s %s" % (enc, mkflux.cells_to_bytes_lsb(cells).hex()))
        meta.append(("raw", enc, dict(kind=kind, i=i)))
    # every single-cell flip of a clean three-sector track (quick: every 8th cell), and seeded pairs of flips: the unit of damage
    # here is one flux cell, not a whole field as in the model's cases
    for enc in ("FM", "MFM"):
        secs = {r: mkdisc.stamp(fc.SALT, r) for r in range(3)}
        t = mkflux.build_track(enc, 1, 0, secs)
        base = list(t.cells)
        step = 8 if quick else 1
        for p_ in range(0, len(base), step):
            cells = list(base)
            cells[p_] ^= 1
            lines.append("%s %s" % (enc, mkflux.cells_to_bytes_lsb(cells).hex()))
            meta.append(("raw", enc, dict(kind=10, i=p_)))
        for j in range(300 if quick else 6000):
            cells = list(base)
            a = rnd.randrange(len(base))
            b = (a + rnd.choice([1, 2, 3, 8, 15, 16, 17, 32, rnd.randrange(len(base))])) % len(base)
            cells[a] ^= 1
            cells[b] ^= 1
            lines.append("%s %s" % (enc, mkflux.cells_to_bytes_lsb(cells).hex()))
            meta.append(("raw", enc, dict(kind=11, i=a * 100000 + b)))
    # an intact ID, then nothing recognisable for a long stretch (every mark between it and a later sector's data field wiped), then
    # that later data field: for every ordered pair of sectors of a full-size track.  However long the stretch (the stretches here go
    # past 65536 cells on an 18-sector MFM track), the later data must not be delivered under the earlier address.
    for enc, nsec in (("FM", 10), ("MFM", 18), ("MFM", 16)):
        secs = {r: mkdisc.stamp(fc.SALT, r) for r in range(nsec)}
        t = mkflux.build_track(enc, 1, 0, secs, gap3=(56 if nsec == 16 else None))
        ids = [it for it in t.items if it["kind"] == "id"]
        dats = [it for it in t.items if it["kind"] == "data"]
        pairs = [(a, b) for a in range(nsec) for b in range(a + 1, nsec)]
        if quick:
            pairs = [pr for pr in pairs if pr[1] - pr[0] in (1, 2, 10, 11, 12, 13, nsec - 1) or (pr[0] + pr[1]) % 5 == 0]
        for a, b in pairs:
            cells = list(t.cells)
            for p_ in range(ids[a]["end"] + 32, dats[b]["sync"]):
                cells[p_] = 0
            lines.append("%s %s" % (enc, mkflux.cells_to_bytes_lsb(cells).hex()))
            meta.append(("raw", enc, dict(kind=12, i=a * 100 + b)))
    hook_trace = os.path.join(common.CACHE, "scratch", "c06-hooks-%d.ndjson" % os.getpid())
    if os.path.exists(hook_trace):
        os.unlink(hook_trace)
    outs, p = fc.decode(bdir, lines, trace_path=hook_trace)
    if p.returncode != 0 or len(outs) < len(lines):
        k = max(0, len(outs) - 1)
        chk.violation("decoder-%s:%s" % ("hang" if p.returncode == -999 else "crash", meta[min(k, len(meta) - 1)][1]),
                      "h_track died at input %d (%r): rc=%s %s" % (k, meta[min(k, len(meta) - 1)], p.returncode, p.stderr[-1500:]),
                      dict(line=lines[min(k, len(lines) - 1)][:4000]))
    n_ok = min(len(lines), len(outs) - 1 if outs and outs[-1] == "" else len(outs))
    for (kind, enc, c), line, o in list(zip(meta, lines, outs))[:n_ok]:
        clean = 1 if o.startswith("[") else 0
        ys = fc.yields_of(o, 32) if clean else []
        if kind == "decode":
            events.append(dict(e="decode", enc=enc, faults=c["faults"], cut=c["cut"], partial=c["partial"], yields=ys, clean=clean))
            chk.case((enc, tuple(c["faults"]), c["cut"], c["partial"]), nontrivial=(c["cut"] < 6 or any(f != "ok" for f in c["faults"])))
        else:
            events.append(dict(e="raw", enc=enc, kind=c["kind"], i=c["i"], yields=ys, clean=clean, addr=1 if c["kind"] in (10, 11, 12) else 0))
            chk.case((enc, "raw", c["kind"], c["i"]))
    chk.sample(next(e for e in events if e["e"] == "decode" and e["faults"][1] == "nomark"))
    chk.sample(events[-1])
    # ---- image level: damaged images read back through dfs
    with common.Scratch("c06") as scratch:
        try:
            chk.extra["decoder_model_trace_validation"] = fc.model_trace_validation(chk, hook_trace, meta, scratch, per_enc=300 if quick else 3000)
        finally:
            if os.path.exists(hook_trace):
                os.unlink(hook_trace)
        nimg = 21 if quick else 84
        imgjobs = []
        for k in range(nimg):
            fmt, enc, spt = [("hfe", "FM", 10), ("hfe", "MFM", 18), ("mfm", "MFM", 18)][k % 3]
            imgjobs.append((k, fmt, enc, spt))

        def doimg(job):
            k, fmt, enc, spt = job
            rr = random.Random(seed * 977 + k)
            ntr = 40
            n = ntr * spt
            salt = 100 + k
            # the catalogue claims a little less than the disc holds, so that a geometry inferred too small (a sector lost on
            # every track / a miscounted track) can still hold the file system; $.ALL covers every data sector it claims
            total = n - 5 * spt
            img = mkdisc.surface_dfs(n, salt, title=b"DAMAGED", total=total, entries=[mkdisc.entry("ALL", length=(total - 2) * 256, start=2)])
            # build tracks, damaging a few fields on some tracks (never track 0: the catalogue must stay readable)
            sides = [[]]
            damaged = {}
            for t in range(ntr):
                secs = {r: bytes(img[(t * spt + r) * 256:(t * spt + r + 1) * 256]) for r in range(spt)}
                tk = mkflux.build_track(enc, t, 0, secs, order=list(range(spt)))
                special = k // 3 % 7          # 0: random damage; 1: last record lost on one track; 2: last record lost on every track;
                                              # 3: first record lost on one track, last on the one before; 4: first two records lost on one track
                                              # 6: every track loses one record - the last on track 0, the first on all the others -
                                              #    so the counts agree, the image mounts, and (t, 0) is simply absent for t > 0
                if special == 1 and t == 3:
                    mkflux.damage(tk, 2 * spt - 1, "crc", rr)
                    damaged.setdefault(t, set()).add(spt - 1)
                elif special == 2 and t > 0:
                    mkflux.damage(tk, 2 * spt - 1, "nomark", rr)
                    damaged.setdefault(t, set()).add(spt - 1)
                elif special == 2 and t == 0:
                    mkflux.damage(tk, 2 * spt - 1, "crc", rr)
                    damaged.setdefault(t, set()).add(spt - 1)
                elif special == 6:
                    item = (2 * spt - 1) if t == 0 else (1 if t % 2 else 0)      # data field or ID field of the record
                    mkflux.damage(tk, item, "crc", rr)
                    damaged.setdefault(t, set()).add(item // 2)
                elif special == 3 and t in (2, 3):
                    item = (2 * spt - 1) if t == 2 else 1
                    mkflux.damage(tk, item, "crc", rr)
                    damaged.setdefault(t, set()).add(item // 2)
                elif special == 5 and t == 0:
                    # only the first track loses its last record (the track whose sector count the reader takes as the disc's)
                    mkflux.damage(tk, 2 * spt - 1, "crc", rr)
                    damaged.setdefault(t, set()).add(spt - 1)
                elif special == 4 and t == 5:
                    for item in (1, 2):            # data field of record 0, ID of record 1
                        mkflux.damage(tk, item, "crc", rr)
                        damaged.setdefault(t, set()).add(item // 2)
                elif special == 0 and t > 0 and rr.random() < 0.3:
                    # the same record's data field is damaged on every chosen track kind: here, arbitrary fields
                    for _ in range(rr.randint(1, 3)):
                        item = rr.randrange(2 * spt)
                        fl = rr.choice(["crc", "nomark"])
                        mkflux.damage(tk, item, fl, rr)
                        damaged.setdefault(t, set()).add(item // 2)
                        if fl == "nomark" and item % 2 == 1 and rr.random() < 0.7 and item + 1 < 2 * spt:
                            mkflux.damage(tk, item + 1, "nomark", rr)      # zeroed run through the next ID as well
                            damaged[t].add((item + 1) // 2)
                sides[0].append(mkflux.hfe_side_stream(tk) if fmt == "hfe" else mkflux.cells_to_bytes_msb(tk.cells))
            path = os.path.join(scratch, "d%d.%s" % (k, fmt))
            if fmt == "hfe":
                mkflux.write_hfe(path, sides, ntr, enc)
            else:
                mkflux.write_hxcmfm(path, sides, ntr)
            evs = []
            o = common.run([dfs, "--file", path, "cat"], timeout=60)
            mounted = o.rc == 0
            tracks = sorted(damaged) + [t for t in (1, ntr - 1) if t not in damaged]
            for t in tracks[:8]:
                for r in range(spt):
                    o = common.run([dfs, "--file", path, "dump-sector", "0", str(t), str(r)], timeout=60)
                    if o.rc == 0:
                        from discread import parse_dump
                        rows = parse_dump(o.out)
                        data = bytes(b for row in rows for b in row["hex"]) if rows else b""
                        result = 1 if data == bytes(img[(t * spt + r) * 256:(t * spt + r + 1) * 256]) else 2
                    else:
                        result = 0 if (o.ok_alphabet() and o.err.strip()) else 2
                    dmg = 1 if (t in damaged or not mounted) else 0
                    # an image with damaged tracks may be rejected as a whole (unequal sector counts): then every read fails cleanly
                    evs.append(dict(e="read", fmt=fmt, enc=enc, img=k, t=t, s=r, result=result, damaged=1 if damaged else 0,
                                    track_damaged=dmg, mounted=1 if mounted else 0))
            # file level: every 256-byte chunk of $.ALL must be the sector the catalogue designates (LBA 2 + i), or the read fails
            # (not judged when every track lost the same last record: nothing on the disc then says how many sectors a track
            # had, the statement's image-level claim is about reads of (track, sector), which the loop above covers)
            o = common.run([dfs, "--file", path, "type", "--binary", "ALL"], timeout=120)
            if k // 3 % 7 in (2, 6):
                pass
            elif o.rc == 0:
                wrong = sum(1 for i in range(0, len(o.out), 256) if o.out[i:i + 256] != bytes(img[(2 + i // 256) * 256:(3 + i // 256) * 256]))
                result = 1 if wrong == 0 and len(o.out) == (total - 2) * 256 else 2
            else:
                result = 0 if (o.ok_alphabet() and o.err.strip()) else 2
            if k // 3 % 7 not in (2, 6):
              evs.append(dict(e="read", fmt=fmt, enc=enc, img=k, t=-1, s=-1, result=result, damaged=1 if damaged else 0, track_damaged=1, mounted=1 if mounted else 0,
                              file="ALL"))
            os.unlink(path)
            return evs
        for evs in common.pmap(doimg, imgjobs):
            events += evs
            for e in evs:
                chk.case(("img", e["img"], e["t"], e["s"]), nontrivial=e["track_damaged"] == 1)
        trace = os.path.join(scratch, "trace.ndjson")
        with open(trace, "w") as f:
            for e in events:
                f.write(json.dumps(e) + "\n")
        ok, tr = common.validate_trace("TraceTrack", "TraceTrack.cfg", trace, timeout=3000)
        chk.add_tlc("TraceTrack", tr)
        chk.traces += len(events)
        if not ok or not tr.verdicts:
            raise common.MachineryError("TraceTrack did not consume the whole trace:\n" + tr.output[-3000:])
        for ln in sorted(tr.verdicts[-1]["bad"]):
            e = events[ln - 1]
            if e["e"] == "decode":
                mis = any(y[0] != y[1] for y in e["yields"])
                chk.violation("decode:%s:%s" % (e["enc"], "misaddress" if mis else "other"),
                              "%s decoder, faults %r cut %d%s: yielded (address, payload, crc ok) %r" %
                              (e["enc"], e["faults"], e["cut"], "+partial" if e["partial"] else "", e["yields"]), dict(event=e))
            elif e["e"] == "raw":
                chk.violation("raw:%s" % e["enc"], "%s decoder on adversarial stream %d (kind %d): yields %r clean=%s" %
                              (e["enc"], e["i"], e["kind"], e["yields"], e["clean"]), dict(event=e))
            else:
                chk.violation("image:%s:%s%s" % (e["fmt"], "wrong-data" if e["result"] == 2 else "lost", ":file" if e.get("file") else ""),
                              "%s image %d (%s): dump-sector 0 %d %d (t = -1: type --binary of a file covering the disc) -> %s (image has damage: %s, mounted: %s)" %
                              (e["fmt"], e["img"], e["enc"], e["t"], e["s"], {0: "failed", 1: "right sector", 2: "WRONG DATA or unclean"}[e["result"]],
                               e["damaged"], e["mounted"]), dict(event=e))
        chk.exhaustive = not quick


def replay(chk, path):
    run(chk, "quick", 1)
