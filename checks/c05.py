"""C05 - HFE and HxC-MFM flux images yield the same sectors as the equivalent sector dump.
Track.tla (fault-free behaviours: RoundTrip) and Hfe3.tla (the opcode interpreter and block de-interleaving against
'opcodes are transparent', every placement of up to two opcodes incl. at the block boundary) are checked by TLC; discs
are recorded as HFE v1, HFE v3 (opcode placements taken from the TLC cases, mapped onto real block boundaries) and HxC
MFM with varied gap / sync lengths, sector order and skew, one or two sides, and every command's output on the flux
image is compared with the sector dump of the same disc; TraceFlux.tla judges the observations."""
import os, json, random, shutil, re
import readtrace, common, mkdisc, mkflux, discs


def disc_image(k, spt, ntr, rnd, two_sided=False):
    n = ntr * spt
    # every third double-density 80-track disc is an Opus DDOS disc, every fourth FM disc a Watford one
    if spt == 18 and ntr == 80 and k % 3 == 0:
        ents = [mkdisc.entry("OP%d" % i, "$", i == 1, 0x1900, 0x8023, [700, 256, 1][i], 40 - 5 * i) for i in range(3)]
        d = discs.build("OPUS", ents, "/var/tmp/beebtools-verif/scratch", "c05-opus-%d-%d" % (os.getpid(), k), salt=40 + k, opus_letter="ABCH"[k % 4], title=b"FLUXOP")
        os.unlink(d.path)
        d.img_ents = ents
        return d.img, [dict(e, _drive=d.drive) for e in ents]
    if spt == 10 and k % 4 == 1:
        # the files of the second catalogue (sectors 2-3) lie above those of the first
        e1 = [mkdisc.entry("W%d" % i, "$", False, 0, 0, 300, n - 40 - 3 * i) for i in range(5)]
        e2 = [mkdisc.entry("X%d" % i, "B", False, 0, 0, 200, n - 10 - 3 * i) for i in range(4)]
        img = mkdisc.surface_wdfs(n, 40 + k, title=b"FLUXW%d" % k, cycle=k, opt=k & 3, entries1=e1, entries2=e2)
        return img, e1 + e2
    ents = []
    start = n - 1
    for i in range(rnd.randint(2, 6)):
        ln = rnd.choice([1, 255, 256, 257, 3000, 700])
        ns = (ln + 255) // 256
        start -= ns + rnd.choice([0, 0, 2])
        if start < 4:
            break
        ents.append(mkdisc.entry("F%d" % i, "$" if i % 2 else "A", i % 3 == 0, 0x1900 + i, 0x8023, ln, start))
    img = mkdisc.surface_dfs(n, 40 + k, title=b"FLUX%d" % k, cycle=k, opt=k & 3, total=min(n, 1023), entries=ents)
    return img, ents


def commands(ents, spt, ntr, drive="0"):
    if ents and "_drive" in ents[0]:          # Opus: address the volume that holds the files
        vol = ents[0]["_drive"][-1]
        cmds = [["cat", drive + vol], ["info", ":%s%s.#.*" % (drive, vol)], ["free", drive + vol], ["sector-map", drive], ["show-titles", drive],
                ["cat", drive + "A"]]
        for e in ents:
            cmds.append(["type", "--binary", ":%s%s.%c.%s" % (drive, vol, e["dir"], e["name"].decode())])
        for t, s_ in ((0, 16), (1, 0), (ntr - 1, spt - 1)):
            cmds.append(["dump-sector", drive, str(t), str(s_)])
        return cmds
    cmds = [["cat", drive], ["info", ":%s.#.*" % drive], ["free", drive], ["sector-map", drive], ["space", drive], ["show-titles", drive]]
    for e in ents:
        cmds.append(["type", "--binary", ":%s.%c.%s" % (drive, e["dir"], e["name"].decode())])
    cmds.append(["dump", ":%s.%c.%s" % (drive, ents[0]["dir"], ents[0]["name"].decode())])
    for t, s in ((0, 0), (0, spt - 1), (1, 0), (ntr - 1, spt - 1), (ntr // 2, spt // 2)):
        cmds.append(["dump-sector", drive, str(t), str(s)])
    return cmds


def run(chk, tier, seed):
    bdir = common.build("ndebug")
    dfs = common.exe(bdir, "dfs")
    rnd = random.Random(seed)
    quick = tier == "quick"
    chk.rule = ("images = seeded discs x {FM 40/80x10, MFM 40x18, 40x16, 80x18} x {HFE v1, HFE v3 with opcode placements, HxC MFM} x "
                "{gap/sync length classes, physical order permutations, track skew, 512-byte padding} x {1, 2 sides}; evaluation = one "
                "command compared between flux image and sector dump; non-trivial = command that reads beyond the catalogue; distinct "
                "by (image parameters, command)")
    chk.assumptions = ["the flux encoder (lib/mkflux.py) is written from the format descriptions and is itself checked by decoding the "
                       "repository's flux test images' conventions (bit order, FM cell doubling)",
                       "SKIPBITS placements are generated but listed as a known finding (interpreter treats the operand byte as cells)"]
    # ---- TLC
    for enc in ("FM", "MFM"):
        r = common.tlc("Track", "Track_%s_clean.cfg" % enc)
        chk.add_tlc("Track_%s_clean.cfg" % enc, r)
        if r.violated:
            chk.violation("model:track:" + r.violated, "Track.tla (%s, fault-free): %s" % (enc, r.violated), dict(enc=enc))
    r = common.tlc("Hfe3", "Hfe3_small.cfg")
    chk.add_tlc("Hfe3_small.cfg", r)
    if r.violated:
        chk.violation("model:hfe3:" + r.violated, "Hfe3.tla: interpreter model violates %s\n%s" % (r.violated, "\n".join(r.cex[:30])), dict(spec="Hfe3.tla"))
    placements = sorted({json.dumps(c): c for c in r.cases}.values(), key=lambda c: json.dumps(c))
    r2 = common.tlc("Hfe3", "Hfe3_skip.cfg")
    chk.add_tlc("Hfe3_skip.cfg", r2)
    chk.extra["skipbits_model_prediction"] = r2.violated or "holds"
    # ---- images
    geoms = [("FM", 40, 10), ("FM", 80, 10), ("MFM", 40, 18), ("MFM", 40, 16), ("MFM", 80, 18)]
    jobs = []
    nimg = 14 if quick else 120
    for k in range(nimg):
        enc, ntr, spt = geoms[k % len(geoms)]
        fmt = ["hfe1", "hfe3", "mfm"][(k // len(geoms)) % 3] if enc == "MFM" else ["hfe1", "hfe3"][(k // len(geoms)) % 2]
        two = (k % 2 == 1) and fmt != "mfm"
        jobs.append((k, enc, ntr, spt, fmt, two))
    # opcode placement sweep on a small FM image: every TLC placement mapped to real block positions
    pl_jobs = placements if not quick else placements[::6]
    with common.Scratch("c05") as scratch:
        def make(job, tag, ops=None, plain=False, fixed=None):
            k, enc, ntr, spt, fmt, two = job
            rr = random.Random(seed * 131 + k)
            img0, ents = disc_image(k, spt, ntr, rr)
            sides = [img0]
            if two:
                img1, ents1 = disc_image(k + 1000, spt, ntr, rr)
                sides.append(img1)
            order = list(range(spt))
            if rr.random() < 0.5:
                rr.shuffle(order)
            gaps = dict(gap1=rr.choice([None, 4, 80]), gap2=rr.choice([None, 9 if enc == "FM" else 20, 14 if enc == "FM" else 30]),
                        gap3=rr.choice([None, 3, 54]), gap4=rr.choice([None, 0, 300]), sync=rr.choice([None, 3 if enc == "FM" else 10, 12 if enc == "FM" else 16]))
            skew = rr.choice([0, 0, 3, 7])
            if plain:
                order, gaps, skew = list(range(spt)), {}, 0
            if fixed:
                order, gaps, skew = list(range(spt)), fixed, 0
            path = os.path.join(scratch, "%s.%s" % (tag, "mfm" if fmt == "mfm" else "hfe"))
            flat = b"".join(bytes(s) for s in sides)
            if ops is None and fmt == "hfe3":
                def ops_fn(t, s, n):
                    o = []
                    for _ in range(rr.randint(0, 4)):
                        o.append((rr.choice([0, 1, 254, 255, 256, 257, 511, 512, n - 1, rr.randrange(n)]), rr.choice(["nop", "setindex", "setbitrate"]), rr.choice([0, 72, 255])))
                    return [x for x in o if 0 <= x[0] < n]
                ops = ops_fn
            mkflux.image_to_flux(flat, ntr, spt, enc, "mfm" if fmt == "mfm" else "hfe", path, nsides=len(sides), order=order, gaps=gaps,
                                 ops=ops, version=3 if fmt == "hfe3" else 1, skew=skew, exact_len=(k % 2 == 1 or fixed is not None))
            # the equivalent sector dump (16-sector discs are taken for 18-sector ones by the probe; file-level commands still agree)
            ext = "ssd" if enc == "FM" else "sdd"
            dumps = []
            for si, s in enumerate(sides):
                dp = os.path.join(scratch, "%s-s%d.%s" % (tag, si, ext))
                mkdisc.write(dp, bytes(s))
                dumps.append(dp)
            return path, dumps, [ents] + ([ents1] if two else []), dict(order=order, gaps=gaps, skew=skew)

        def compare(job, path, dumps, entss, tag, extra=None):
            k, enc, ntr, spt, fmt, two = job
            evs = []
            for si, (dp, ents) in enumerate(zip(dumps, entss)):
                drive = "0" if si == 0 else "2"
                for cmd in commands(ents, spt, ntr, drive):
                    if spt == 16 and cmd[0] in ("dump-sector", "sector-map"):
                        continue
                    of = common.run([dfs, "--file", path] + cmd, timeout=60)
                    # the dump of side si attached alone is drive 0
                    cmd_d = [re.sub(r"^:2([A-H]?)\.", r":0\1.", c) if c.startswith(":2") else (re.sub(r"^2([A-H]?)$", r"0\1", c) if i == 1 else c) for i, c in enumerate(cmd)]
                    od = common.run([dfs, "--file", dp] + cmd_d, timeout=60)
                    outf = of.out
                    if si == 1:        # the same surface is drive 2 in the flux image and drive 0 when its dump is attached alone
                        if cmd[0] == "cat":
                            outf = outf.replace(b"Drive 2", b"Drive 0")
                        elif cmd[0] == "show-titles":
                            outf = re.sub(rb"(?m)^2([A-H]?): ", rb"0\1: ", outf)
                        elif cmd[0] == "never":
                            pass
                        elif cmd[0] == "space":
                            outf = outf.replace(b"on disc 2", b"on disc 0")
                    evs.append(dict(e="equiv", tag=tag, fmt=fmt, enc=enc, spt=spt, ntr=ntr, side=si, cmd=cmd[:2], same=1 if (outf == od.out and of.rc == od.rc) else 0,
                                    rc_flux=of.rc if of.rc is not None else -9, rc_dump=od.rc if od.rc is not None else -9,
                                    clean=1 if of.ok_alphabet() else 0, extra=extra or {}, err=of.err.decode("latin1")[:160]))
            return evs

        rs_runs = []

        def do(job):
            tag = "i%d" % job[0]
            path, dumps, entss, params = make(job, tag)
            evs = compare(job, path, dumps, entss, tag, params)
            # ReadStack.tla: the sectors as the bottom layer delivers them, flux against dump, sector by sector (same group)
            if not job[5] and job[0] % (4 if quick else 1) == 0:
                k, enc, ntr, spt, fmt, two = job
                for ci, cmd in enumerate(commands(entss[0], spt, ntr, "0")[:6]):
                    for which, p_ in (("flux", path), ("dump", dumps[0])):
                        o, tev = readtrace.record([dfs, "--file", p_] + cmd, scratch, "%s-%d-%s" % (tag, ci, which), ctx=dict(group=tag))
                        rs_runs.append(("%s %s %dx%d (%s): dfs %s (rc=%s)" % (fmt, enc, ntr, spt, which, " ".join(cmd), o.rc), tev))
            for p in [path] + dumps:
                os.unlink(p)
            return evs

        def do_placement(ic):
            i, pl = ic
            job = (5000 + i, "FM", 40, 10, "hfe3", False)
            # map the model's element list onto real positions: data element n stands for the run of bytes up to a block boundary
            def ops_fn(t, s, n):
                o = []
                nd = sum(1 for e in pl if e["k"] == "d")
                # positions of interest: block boundary (byte 255/256 of the side stream), start, middle
                anchors = [255, 256, 511, 7, 1000][: max(1, nd)]
                d = 0
                pending = []
                for e in pl:
                    if e["k"] == "d":
                        d += 1
                    else:
                        pos = anchors[min(d, len(anchors) - 1)] if d > 0 else 0
                        # an opcode with operand placed so that the opcode is the last byte of a block when anchored at 255
                        name = {"nop": "nop", "idx": "setindex", "rate": "setbitrate", "skip": "skipbits"}[e["k"]]
                        o.append((pos, name, e.get("v", 0) if e["k"] != "rate" else 72))
                return [x for x in o if x[0] < n]
            tag = "p%d" % i
            path, dumps, entss, params = make(job, tag, ops=ops_fn)
            evs = compare(job, path, dumps, entss, tag, dict(placement=pl))
            for p in [path] + dumps:
                os.unlink(p)
            return evs

        def do_skip(i):
            job = (7000 + i, "FM", 40, 10, "hfe3", False)
            tag = "k%d" % i
            path, dumps, entss, params = make(job, tag, ops=lambda t, s, n: [(300 + 700 * j, "skipbits", i % 8) for j in range(3)] if t % 5 == 1 else [], plain=True)
            evs = compare(job, path, dumps, entss, tag, dict(skipbits=i % 8))
            for e in evs:
                e["skip"] = 1
            for p in [path] + dumps:
                os.unlink(p)
            return evs
        def do_skiptail(i):
            # SKIPBITS (+ SETINDEX) in the final gap of a track, after the last sector: whatever the interpreter does with the rest of
            # that block, no sector cell is involved, so the image must read like the dump (this is not the known finding, which is
            # about SKIPBITS inside a sector)
            enc = "FM" if i % 2 == 0 else "MFM"
            job = (7500 + i, enc, 40, 10 if enc == "FM" else 18, "hfe3", False)
            tag = "kt%d" % i
            which = (lambda t: True) if i % 3 == 0 else ((lambda t: t == 0) if i % 3 == 1 else (lambda t: t % 7 == 3))
            path, dumps, entss, params = make(job, tag, ops=lambda t, s, n: [(n - 6, "skipbits", 1 + i % 7), (n - 4, "setindex", 0)] if which(t) else [], plain=True)
            evs = compare(job, path, dumps, entss, tag, dict(skiptail=1 + i % 7))
            for e in evs:
                e["skiptail"] = 1
            for p in [path] + dumps:
                os.unlink(p)
            return evs

        def do_blank2(i):
            # a one-sided disc in a two-sided container (what imaging a single-sided floppy with two heads gives): side 1 decodes to
            # no sectors at all; side 0 must read exactly like its dump
            enc, ntr, spt, version = [("FM", 40, 10, 1), ("MFM", 40, 18, 1), ("FM", 80, 10, 3), ("MFM", 80, 18, 3)][i % 4]
            job = (8000 + i, enc, ntr, spt, "hfe%d" % version, False)
            tag = "b2-%d" % i
            rr = random.Random(seed * 17 + i)
            img0, ents = disc_image(8000 + i, spt, ntr, rr)
            s0, s1 = [], []
            for t in range(ntr):
                secs = {r_: bytes(img0[(t * spt + r_) * 256:(t * spt + r_ + 1) * 256]) for r_ in range(spt)}
                s0.append(mkflux.hfe_side_stream(mkflux.build_track(enc, t, 0, secs)))
                blank = mkflux.Track(enc)
                blank.gap(len(s0[-1]) // (2 if enc == "FM" else 2) // 2 if False else 1500, fill=(0xFF if enc == "FM" else 0x4E) if i % 2 == 0 else 0x00)
                s1.append(mkflux.hfe_side_stream(blank))
            path = os.path.join(scratch, tag + ".hfe")
            mkflux.write_hfe(path, [s0, s1], ntr, enc, version=version)
            dp = mkdisc.write(os.path.join(scratch, tag + (".ssd" if enc == "FM" else ".sdd")), bytes(img0))
            evs = compare(job, path, [dp], [ents], tag, dict(blank_side1=True))
            for e in evs:
                e["blank2"] = 1
            for p in (path, dp):
                os.unlink(p)
            return evs

        def do_pad(g1):
            # two-sided image, unpadded LUT length, minimal trailing gaps: the end of side 1's last block matters
            job = (9000 + g1, "FM", 40, 10, "hfe1", True)
            tag = "pad%d" % g1
            path, dumps, entss, params = make(job, tag, fixed=dict(gap1=g1, gap2=None, gap3=3, gap4=0, sync=None))
            evs = compare(job, path, dumps, entss, tag, dict(pad_gap1=g1))
            for p in [path] + dumps:
                os.unlink(p)
            return evs
        pads = list(range(0, 64, 8 if quick else 1))
        res = common.pmap(do_pad, pads) + common.pmap(do, jobs) + common.pmap(do_placement, list(enumerate(pl_jobs))) + common.pmap(do_skip, list(range(2 if quick else 8))) + \
              common.pmap(do_skiptail, list(range(6 if quick else 42))) + common.pmap(do_blank2, list(range(4 if quick else 16)))
        events = [e for evs in res for e in evs]
        for e in events:
            chk.case((e["tag"], tuple(e["cmd"]), e["side"]), nontrivial=e["cmd"][0] not in ("cat", "show-titles", "free"))
        chk.sample({k: v for k, v in events[0].items()})
        chk.sample(next(e for e in events if "placement" in e["extra"]))
        trace = os.path.join(scratch, "trace.ndjson")
        with open(trace, "w") as f:
            for e in events:
                f.write(json.dumps(common.no_nulls(e)) + "\n")
        ok, tr = common.validate_trace("TraceFlux", "TraceFlux.cfg", trace, timeout=1800)
        chk.add_tlc("TraceFlux", tr)
        chk.traces += len(events)
        if not ok or not tr.verdicts:
            raise common.MachineryError("TraceFlux did not consume the whole trace:\n" + tr.output[-3000:])
        for ln in sorted(tr.verdicts[-1]["bad"]):
            e = events[ln - 1]
            kind = "skipbits" if e.get("skip") else "skipbits-tail" if e.get("skiptail") else "blank-side1" if e.get("blank2") else ("v3-opcodes" if "placement" in e["extra"] else ("two-sided" if e["side"] == 1 else "plain"))
            chk.violation("%s:%s:%s" % (e["fmt"], e["enc"], kind),
                          "%s %s %dx%d side %d: `%s` differs from the sector dump (rc flux %s / dump %s, clean=%s) %s; params %s" %
                          (e["fmt"], e["enc"], e["ntr"], e["spt"], e["side"], " ".join(e["cmd"]), e["rc_flux"], e["rc_dump"], e["clean"], e["err"][:120],
                           json.dumps(e["extra"])[:300]), dict(event=e))
        if rs_runs:
            for desc, tev in rs_runs:
                chk.case(("readstack", desc))
            readtrace.validate(chk, rs_runs, scratch, "readstack")
        chk.extra["images"] = len(jobs) + len(pl_jobs)


def replay(chk, path):
    run(chk, "quick", 1)
