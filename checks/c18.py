"""C18 - diagnostic and presentation options never change the data shown.
Cli.tla states the 2-run property at spec level (DiagnosticsNonInterfering: the outcome is a function of the command
line with --verbose / --show-config removed) and TLC checks it for every option sequence; a corpus of sessions (valid
images of every container incl. flux images where verbose mode dumps headers and sectors, invalid and hostile images,
all commands) is re-run with each diagnostic option at each position, with every --ui style, and under a pseudo-terminal
with COLUMNS 20/40/80; TraceCli-style judgement by TraceDiff.tla: byte-equal stdout and exit status, for cat under
--ui/COLUMNS equality of the projected content; every run twice."""
import os, json, random, pty, subprocess, select, shutil, zlib
import common, mkdisc, discs
import c10, c07


def run_pty(argv, env_extra, cwd=None, timeout=30):
    """run with stdout on a pseudo-terminal; returns (rc, stdout bytes with CRLF normalised)"""
    master, slave = pty.openpty()
    env = dict(os.environ)
    env.update(common.SAN_ENV)
    env.pop("COLUMNS", None)
    env.update(env_extra)
    p = subprocess.Popen(argv, stdout=slave, stderr=subprocess.PIPE, stdin=subprocess.DEVNULL, env=env, cwd=cwd)
    os.close(slave)
    out = bytearray()
    while True:
        r, _, _ = select.select([master], [], [], timeout)
        if not r:
            p.kill()
            break
        try:
            d = os.read(master, 65536)
        except OSError:
            break
        if not d:
            break
        out += d
    os.close(master)
    err = p.stderr.read()
    p.wait()
    return p.returncode, bytes(out).replace(b"\r\n", b"\n")


def run(chk, tier, seed):
    bdir = common.build("ndebug")
    dfs = common.exe(bdir, "dfs")
    rnd = random.Random(seed)
    quick = tier == "quick"
    chk.rule = ("sessions = (image, command) pairs over valid images of every container, hostile and damaged images; each re-run with "
                "--verbose / --show-config / both, before and after --file, plus an identical second run; cat re-run with --ui acorn, "
                "watford, opus and on a pseudo-terminal with COLUMNS 20/40/80 and compared by projected content; evaluation = one "
                "comparison; non-trivial = the baseline run succeeds; distinct by (image, command, variant)")
    chk.assumptions = ["stderr is not compared (it is where the options add text)", "cat projection = title, cycle, option, density, multiset of (dir, name, lock)"]
    r = common.tlc("Cli", "Cli_small.cfg", timeout=1800)
    chk.add_tlc("Cli_small.cfg", r)
    if r.violated:
        chk.violation("model:" + r.violated, "Cli.tla: %s\n%s" % (r.violated, "\n".join(r.cex[:30])), dict(spec="Cli.tla"))
    events = []
    with common.Scratch("c18") as scratch:
        items = c10.corpus(scratch, rnd)
        # hostile / invalid images
        hcases = [dict(kind="hfe", h=dict(sig="v1", len="full", tracks=1, sides=1, enc=2, toff="ok", tlen="ok", tail="none")),
                  dict(kind="hfe", h=dict(sig="v3", len="full", tracks=2, sides=2, enc=0, toff="ok", tlen="odd", tail="opcode")),
                  dict(kind="hxc", h=dict(len="full", tracks=1, sides=1, iface=4, listoff="19", term=True, tsize="ok", toff="ok")),
                  dict(kind="hxc", h=dict(len="list-cut", tracks=2, sides=1, iface=4, listoff="19", term=False, tsize="ok", toff="ok")),
                  dict(kind="mmb", h=dict(len="slot-cut", status=15)),
                  dict(kind="dump", h=dict(nsec=3, count=8, total=400, b6=0, aa=True, opus="none")),
                  dict(kind="dump", h=dict(nsec=18, count=8, total=720, b6=0, aa=False, opus="vol-cat-bad")),
                  dict(kind="dump", h=dict(nsec=400, count=248, total=400, b6=12, aa=False, opus="none"))]
        for i, c in enumerate(hcases):
            p = c07.build_hostile(c, os.path.join(scratch, "hostile%d" % i), rnd)
            items.append(("hostile-%d" % i, p, [["cat"], ["info", "#.*"], ["sector-map"], ["show-titles"]]))
        # an HFEv3 image that uses SKIPBITS in the one form the interpreter decodes consistently (two half-byte skips whose
        # operands carry the cells): verbose mode walks through extra code in the skip loop
        import mkflux
        img = mkdisc.surface_dfs(400, 45, title=b"SKIPPAIR", entries=[mkdisc.entry("A", length=700, start=390)])
        hp = mkflux.image_to_flux(bytes(img), 40, 10, "FM", "hfe", os.path.join(scratch, "skippair.hfe"), version=3)
        raw = bytearray(open(hp, "rb").read())
        pair = bytes([mkflux.rev8(0xF3), mkflux.rev8(0x04), mkflux.rev8(0xF3), mkflux.rev8(0x04)])
        done = 0
        pos = 1024 + 600
        while done < 6 and pos < len(raw) - 2048:
            blk = (pos - 1024) // 256
            # side-0 blocks only (even 256-byte blocks of the track data), keep the 4 bytes inside one block
            if blk % 2 == 0 and raw[pos] == mkflux.rev8(0x44) and (pos - 1024) % 256 < 250 and raw[pos + 1:pos + 4] == bytes([0, 0, 0]) is False:
                pass
            pos += 1
        # simpler and exact: rebuild the track streams with the pair substituted for a cell byte of value 0x44 (logical order)
        def ops_pair(t, s_, n):
            return []
        sides = [[]]
        for t in range(40):
            secs = {r: bytes(img[(t * 10 + r) * 256:(t * 10 + r + 1) * 256]) for r in range(10)}
            st = bytearray(mkflux.hfe_side_stream(mkflux.build_track("FM", t, 0, secs)))
            out = bytearray()
            replaced = 0
            for i, b in enumerate(st):
                if b == mkflux.rev8(0x44) and replaced < 3 and i > 300 and len(out) % 256 < 250 and t % 4 == 1:
                    out += pair
                    replaced += 1
                else:
                    out.append(b)
            sides[0].append(bytes(out))
        mkflux.write_hfe(hp, sides, 40, "FM", version=3)
        items.append(("hfe3-skip-pair", hp, [["cat"], ["info", "#.*"], ["type", "--binary", "A"], ["dump-sector", "0", "1", "3"], ["sector-map"]]))
        jobs = []
        for tag, path, cmds in items:
            for cmd in (cmds if not quick else cmds[:6]):
                jobs.append((tag, path, cmd))

        def do(job):
            tag, path, cmd = job
            base = common.run([dfs, "--file", path] + cmd, timeout=60)
            evs = []
            variants = {"again": [dfs, "--file", path] + cmd,
                        "verbose-first": [dfs, "--verbose", "--file", path] + cmd,
                        "verbose-after": [dfs, "--file", path, "--verbose"] + cmd,
                        "show-config": [dfs, "--file", path, "--show-config"] + cmd,
                        "both": [dfs, "--show-config", "--verbose", "--file", path] + cmd}
            for vn, argv in variants.items():
                o = common.run(argv, timeout=120)
                evs.append(dict(e="pair", tag=tag, cmd=cmd[:2], variant=vn, same=1 if (o.out == base.out and o.rc == base.rc) else 0,
                                rc=base.rc if base.rc is not None else -9, rc2=o.rc if o.rc is not None else -9, clean=1 if o.ok_alphabet() else 0))
            # the same pairs in other surroundings: COLUMNS exported while stdout is a file (it is then ignored, with or without
            # --verbose), and a standard error that cannot be written (the diagnostics are lost, the result is not)
            if cmd[0] in ("cat", "info") and (not quick or zlib.crc32(tag.encode()) % 2 == 0 or cmd[0] == "cat"):
                for cols in ("20", "39", "132"):
                    for ui in ((None, "watford") if cmd[0] == "cat" else (None,)):
                        pre = ["--ui", ui] if ui else []
                        b2 = common.run([dfs] + pre + ["--file", path] + cmd, timeout=60, env={"COLUMNS": cols})
                        o = common.run([dfs, "--verbose"] + pre + ["--file", path] + cmd, timeout=120, env={"COLUMNS": cols})
                        evs.append(dict(e="pair", tag=tag, cmd=cmd[:2], variant="verbose COLUMNS=%s ui=%s" % (cols, ui), same=1 if (o.out == b2.out and o.rc == b2.rc) else 0,
                                        rc=b2.rc if b2.rc is not None else -9, rc2=o.rc if o.rc is not None else -9, clean=1 if o.ok_alphabet() else 0))
            if cmd[0] in ("cat", "info", "type", "free"):
                def run_errfull(argv):
                    with open("/dev/full", "wb") as ef:
                        try:
                            p_ = subprocess.run(argv, stdout=subprocess.PIPE, stderr=ef, stdin=subprocess.DEVNULL, timeout=120)
                            return p_.returncode, p_.stdout
                        except subprocess.TimeoutExpired:
                            return -9, b""
                rc0, out0 = run_errfull([dfs, "--file", path] + cmd)
                for vn, argv in (("verbose stderr=/dev/full", [dfs, "--verbose", "--file", path] + cmd),
                                 ("show-config stderr=/dev/full", [dfs, "--show-config", "--file", path] + cmd)):
                    rc1, out1 = run_errfull(argv)
                    evs.append(dict(e="pair", tag=tag, cmd=cmd[:2], variant=vn, same=1 if (out1 == out0 and rc1 == rc0) else 0, rc=rc0, rc2=rc1, clean=1 if rc1 in (0, 1, 2) else 0))
            if cmd[0] == "cat" and base.rc == 0:
                drive_variant = "opus" if tag == "opus" else None
                ref = None
                for ui in (None, "acorn", "watford", "opus"):
                    if ui is not None and ref is None:
                        break
                    # (widths a terminal has, and values that are not a width at all: too large for an int, zero, negative, not a number)
                    for cols in (None, "20", "40", "80") + (("2147483648", "99999999999", "999999999999999999999999999", "0", "-5", "abc", "132")
                                                              if (not quick or zlib.crc32(tag.encode()) % 3 == 0 or tag.startswith("dfs-400")) else ()):
                        argv = [dfs, "--file", path] + (["--ui", ui] if ui else []) + cmd
                        if cols is None:
                            o_rc, o_out = (lambda o: (o.rc, o.out))(common.run(argv, timeout=60))
                        else:
                            o_rc, o_out = run_pty(argv, {"COLUMNS": cols})
                        eff = ui or {"wdfs": "watford", "opus": "opus"}.get(tag, "acorn")
                        pc = discs.parse_cat(o_out, eff, 36)
                        proj = None
                        if pc:
                            proj = [pc["title_obs"], pc["cycle_obs"], pc["opt_obs"], pc["dens_obs"], sorted(map(json.dumps, pc["shown"]))]
                        if ref is None:
                            ref = proj
                            if ref is None:
                                break          # a catalogue the projection does not understand (e.g. HDFS without cycle number)
                        evs.append(dict(e="ui", tag=tag, cmd=cmd[:2], variant="ui=%s cols=%s" % (ui, cols), same=1 if (proj is not None and proj == ref and o_rc == 0) else 0,
                                        rc=0, rc2=o_rc if o_rc is not None else -9, clean=1))
            elif base.rc == 0 and cmd[0] in ("info", "free", "type", "sector-map"):
                for ui in ("acorn", "watford", "opus"):
                    o = common.run([dfs, "--ui", ui, "--file", path] + cmd, timeout=60, env={"COLUMNS": "20"})
                    evs.append(dict(e="pair", tag=tag, cmd=cmd[:2], variant="ui=" + ui, same=1 if (o.out == base.out and o.rc == base.rc) else 0,
                                    rc=base.rc, rc2=o.rc if o.rc is not None else -9, clean=1 if o.ok_alphabet() else 0))
            return evs
        for evs in common.pmap(do, jobs):
            events += evs
        # option order: --drive (with an Opus volume letter), --dir and --ui in every order give the same data
        import itertools
        opus = next(p for t, p, c in items if t == "opus")
        optsets = [("--drive", "0B"), ("--dir", "D"), ("--ui", "watford"), ("--verbose",), ("--show-config",)]
        for cmd in (["cat"], ["info", "#.*"], ["free"], ["type", "--binary", "A"], ["info", "B"]):
            base = common.run([dfs, "--file", opus, "--drive", "0B", "--dir", "D"] + cmd, timeout=60)
            basep = discs.parse_cat(base.out, "opus", 68) if cmd[0] == "cat" else None
            for perm in itertools.permutations(optsets, 3 if quick else 5):
                if ("--drive", "0B") not in perm or ("--dir", "D") not in perm:
                    continue
                argv = [dfs, "--file", opus] + [x for o in perm for x in o] + cmd
                o = common.run(argv, timeout=60)
                if cmd[0] == "cat":
                    ui = "watford" if ("--ui", "watford") in perm else "opus"
                    pr = discs.parse_cat(o.out, ui, 68)
                    key = lambda q: None if q is None else [q["title_obs"], q["cycle_obs"], q["opt_obs"], q["dens_obs"], sorted(map(json.dumps, q["shown"]))]
                    same = key(pr) is not None and key(pr) == key(basep) and o.rc == base.rc
                else:
                    same = o.out == base.out and o.rc == base.rc
                events.append(dict(e="pair", tag="opus-order", cmd=cmd[:2], variant="order:" + " ".join(x[0] for x in perm), same=1 if same else 0,
                                   rc=base.rc if base.rc is not None else -9, rc2=o.rc if o.rc is not None else -9, clean=1 if o.ok_alphabet() else 0))
        # ---- the column layout itself (CatLayout.tla): files per line for each ui style and terminal width
        rl = common.tlc("CatLayout", "CatLayout.cfg")
        chk.add_tlc("CatLayout.cfg", rl)
        chk.extra["layout_model_vs_table"] = rl.violated or "agree"
        lay_events = []
        ljobs = []
        for (nc, no) in ((0, 0), (1, 0), (0, 3), (5, 4), (31, 0), (16, 15), (2, 1), (4, 9)):
            ents = [mkdisc.entry("C%02d" % i, "$", i % 3 == 0, 0, 0, 10, 300 - i) for i in range(nc)] + \
                   [mkdisc.entry("O%02d" % i, "ABD"[i % 3], i % 2 == 0, 0, 0, 10, 250 - i) for i in range(no)]
            d = discs.build("DFS", ents, scratch, "lay%d-%d" % (nc, no), nsectors=400, salt=17, title=b"LAYOUT")
            for ui in ("acorn", "watford", "opus"):
                for w in (20, 39, 40, 79, 80, 132):
                    ljobs.append((d.path, ui, w, nc, no))

        def dolay(j):
            path, ui, w, nc, no = j
            rc, out = run_pty([dfs, "--file", path, "--ui", ui, "cat"], {"COLUMNS": str(w)})
            lines = out.decode("latin1").split("\n")
            try:
                blank = lines.index("")
            except ValueError:
                blank = len(lines)
            region = lines[blank + 1:]
            while region and region[-1] == "":
                region.pop()
            counts = []
            for ln in region:
                if re.match(r"^\d\d files of \d+ on \d+ tracks$", ln) or ln == "No file":
                    break
                counts.append(sum(1 for p0 in range(0, len(ln), 20) if ln[p0:p0 + 20].strip()))
            while counts and counts[-1] == 0:
                counts.pop()
            return dict(e="layout", ui=ui, width=w, ncur=nc, nother=no, lines=counts, rc=rc if rc is not None else -9)
        import re
        lay_events = common.pmap(dolay, ljobs)
        ltrace = os.path.join(scratch, "layout.ndjson")
        with open(ltrace, "w") as f:
            for e in lay_events:
                f.write(json.dumps(e) + "\n")
        okl, trl = common.validate_trace("TraceCatLayout", "TraceCatLayout.cfg", ltrace, timeout=600)
        chk.add_tlc("TraceCatLayout", trl)
        if not okl or not trl.verdicts:
            raise common.MachineryError("TraceCatLayout did not consume the whole trace:\n" + trl.output[-2000:])
        # C18 does not fix the layout, only that nothing but the layout changes: a different layout is reported in the
        # evidence as a difference from the documented column table, never as a violation of C18
        lay_bad = [lay_events[ln - 1] for ln in sorted(trl.verdicts[-1]["bad"])]
        chk.extra["layout_differs_from_documented_table"] = [dict(ui=e["ui"], width=e["width"], files=[e["ncur"], e["nother"]], lines=e["lines"]) for e in lay_bad[:10]]
        chk.drift += len(lay_bad)
        for e in lay_events:
            chk.case(("layout", e["ui"], e["width"], e["ncur"], e["nother"]))
        chk.traces += len(lay_events)
        for e in events:
            chk.case((e["tag"], tuple(e["cmd"]), e["variant"]), nontrivial=e["rc"] == 0)
        chk.sample(events[0])
        chk.sample(next(e for e in events if e["e"] == "ui"))
        trace = os.path.join(scratch, "trace.ndjson")
        with open(trace, "w") as f:
            for e in events:
                f.write(json.dumps(common.no_nulls(e)) + "\n")
        ok, tr = common.validate_trace("TraceDiff", "TraceDiff.cfg", trace, timeout=1800)
        chk.add_tlc("TraceDiff", tr)
        chk.traces += len(events)
        if not ok or not tr.verdicts:
            raise common.MachineryError("TraceDiff did not consume the whole trace:\n" + tr.output[-3000:])
        for ln in sorted(tr.verdicts[-1]["bad"]):
            e = events[ln - 1]
            chk.violation("%s:%s:%s" % (e["e"], e["cmd"][0], e["variant"].split(" ")[0].split("=")[0]),
                          "image %s, `%s`: variant %s changes the data shown (rc %s vs %s, clean=%s)" % (e["tag"], " ".join(e["cmd"]), e["variant"], e["rc"], e["rc2"], e["clean"]),
                          dict(event=e))
        chk.extra["sessions"] = len(jobs)


def replay(chk, path):
    run(chk, "quick", 1)
