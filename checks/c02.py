"""C02 - dfs reports catalogue metadata exactly as encoded on the disc.
spec/Catalog.tla enumerates well-formed catalogues (field boundary classes; name/directory orderings), TLC checks
the implementation-shaped extraction/sign-extension against the documented format, every catalogue is written to
real discs (Acorn, Watford both halves, Opus volumes) and `info`, `cat` x ui, `show-titles`, `.inf` are projected and
judged by spec/TraceCatalog.tla."""
import os, json, random, itertools
import common, mkdisc, discs
from common import MachineryError

TITLES = [b"", b"A", b"TWELVECHARSX", b"Title", b"trail   ", b"NUL\0HIDDEN", b"EIGHTCHR", b"EIGHTCHR\0xyz", b"NINECHARS",
          b" lead", b"a b c", bytes([0xC1, 0xE2, 0xB1]), b"(41)", b"x" * 11 + b"\0"]
UIS = [None, "acorn", "watford", "opus"]


def events_for_disc(dfs, d, scratch, eid, curs=(36,), uis=UIS, want_inf=False, want_titles=True):
    """Run the metadata commands on disc d; returns list of events."""
    ev = []
    ents = d.entries
    raws = [discs.raw_meta(e) for e in ents]
    nms = [discs.nm(e) for e in ents]
    base = [dfs, "--file", d.path]
    if eid % 3 == 1:      # drive taken from --drive, followed by a --ui option
        o = common.run(base + ["--drive", d.drive, "--ui", "acorn", "info", "#.*"])
    else:
        o = common.run(base + ["info", d.colon + "#.*"])
    ev.append(dict(e="info", id=eid, rc=o.rc if o.rc is not None else -1, raw=raws, nm=nms, obs=discs.parse_info(o.out) or []))
    # the same metadata when the entry is asked for by its own name (the name, punctuation included, is a wildcard without
    # wildcard characters): only names that no other entry of the disc equals up to case, and without # * . :
    picked = 0
    for e_, raw, n in zip(ents, raws, nms):
        nmb = bytes(n[2])
        if picked >= 8 or not nmb or any(c in nmb for c in b"#*.:") or n[0] in (35, 42, 46, 58) or nmb.isalnum():
            continue
        if sum(1 for m in nms if bytes(m[2]).upper() == nmb.upper() and chr(m[0]).upper() == chr(n[0]).upper()) != 1:
            continue
        picked += 1
        o1 = common.run(base + ["info", "%s%c.%s" % (d.colon, n[0], nmb.decode("latin1"))])
        ev.append(dict(e="info", id=eid, rc=o1.rc if o1.rc is not None else -1, raw=[raw], nm=[n], obs=discs.parse_info(o1.out) or [], byname=1))
    for cur in curs:
        for ui in uis:
            # the same options in either order (every second disc): --ui must not disturb --dir / --drive given before it
            if eid % 2:
                argv = base + ["--dir", chr(cur), "--drive", d.drive] + (["--ui", ui] if ui else []) + ["cat"]
            else:
                argv = base + (["--ui", ui] if ui else []) + ["--dir", chr(cur), "cat", d.drive]
            o = common.run(argv, env={"COLUMNS": "80"})
            eff = ui or {"DFS": "acorn", "WDFS": "watford", "OPUS": "opus"}[d.variant]
            pc = discs.parse_cat(o.out, eff, cur) or dict(title_obs=[-1], cycle_obs=-1, opt_obs=-1, dens_obs="?", shown=[])
            e = dict(e="cat", id=eid, rc=o.rc if o.rc is not None else -1, ui=ui or "default", cur=cur,
                     entries=[dict(dir=n[0], name=n[2], lock=n[1]) for n in nms], title_raw=d.title_raw, cycle=d.cycle, opt=d.opt, mfm=d.mfm)
            e.update(pc)
            e["shown"] = [dict(dir=s[0], name=s[1], lock=s[2]) for s in pc["shown"]]
            ev.append(e)
    if eid % 7 == 0 and d.variant == "DFS" and d.path.endswith(".ssd"):
        # the same image under a directory and a stem that look like other image types: only the end of the name is a hint
        import shutil as _sh
        for sub, stem in (("discs.sdd", "game"), ("", "game.ddd.bak")):
            ddir = os.path.join(scratch, "p%d" % eid, sub)
            os.makedirs(ddir, exist_ok=True)
            p2 = os.path.join(ddir, stem + ".ssd")
            _sh.copy(d.path, p2)
            o = common.run([dfs, "--file", p2, "--dir", "$", "cat", d.drive], env={"COLUMNS": "80"})
            pc = discs.parse_cat(o.out, "acorn", 36) or dict(title_obs=[-1], cycle_obs=-1, opt_obs=-1, dens_obs="?", shown=[])
            e = dict(e="cat", id=eid, rc=o.rc if o.rc is not None else -1, ui="default", cur=36,
                     entries=[dict(dir=n[0], name=n[2], lock=n[1]) for n in nms], title_raw=d.title_raw, cycle=d.cycle, opt=d.opt, mfm=d.mfm)
            e.update(pc)
            e["shown"] = [dict(dir=s_[0], name=s_[1], lock=s_[2]) for s_ in pc["shown"]]
            ev.append(e)
            os.unlink(p2)
    if want_titles:
        o = common.run(base + ["show-titles", "0"])
        want = d.drive + ": "
        got = [ln[len(want):] for ln in o.out.decode("latin1").split("\n") if ln.startswith(want)]
        ev.append(dict(e="titles", id=eid, rc=o.rc if o.rc is not None else -1, title_raw=d.title_raw,
                       title_obs=[ord(c) for c in got[0]] if len(got) == 1 else [-1]))
    if want_inf:
        dest = os.path.join(scratch, "x%d" % eid)
        os.makedirs(dest, exist_ok=True)
        o = common.run(base + ["--drive", d.drive, "--dir", ".", "extract-files", dest])
        for e_, raw, n in zip(ents, raws, nms):
            fn = os.path.join(dest, "%c.%s" % (n[0], bytes(n[2]).decode("latin1")))
            body = mkdisc.body_of(d.img, e_, d.origin)
            obs = None
            try:
                obs = discs.parse_inf(open(fn + ".inf", "rb").read())
            except OSError:
                pass
            x = dict(e="inf", id=eid, raw=raw, nm=n, obs=obs or dict(dir=-1, name=[], load=-1, exec=-1, len=-1, lock=-1, crc=-1))
            if len(body) <= 12:
                x["body"] = list(body)
            else:
                x["crc_ref"] = mkdisc.crc16_xmodem(body)
            ev.append(x)
    return ev


def run(chk, tier, seed):
    bdir = common.build("ndebug")
    dfs = common.exe(bdir, "dfs")
    rnd = random.Random(seed)
    chk.rule = ("catalogues = every well-formed catalogue Catalog.tla reaches within the constants (field boundary classes for "
                "single entries; all 3-file name/directory/lock orderings), each written to Acorn / Watford (every split) / Opus "
                "volume discs; plus seeded 31/62-entry catalogues. evaluation = one (disc, command) observation judged by "
                "TraceCatalog.tla; non-trivial = catalogue with >= 1 entry; distinct by (variant, catalogue, command)")
    chk.assumptions = ["info/cat/.inf output parsed by fixed-column projections (lib/discs.py)",
                       "name bytes restricted to printable non-blank ASCII in cat/info parsing cases"]
    quick = tier == "quick"
    # ---- TLC: M |= R and enumeration
    r1 = common.tlc("Catalog", "Catalog_small.cfg" if quick else "Catalog_fields.cfg")
    chk.add_tlc("Catalog fields", r1)
    r2 = common.tlc("Catalog", "Catalog_order.cfg")
    chk.add_tlc("Catalog order", r2)
    for r in (r1, r2):
        if r.violated:
            chk.violation("model:" + r.violated, "Catalog.tla: implementation model violates %s\n%s" % (r.violated, "\n".join(r.cex[:40])),
                          dict(spec="Catalog.tla"))
    field_cases = {json.dumps(c, sort_keys=True): c for c in r1.cases}
    order_cases = {json.dumps(c, sort_keys=True): c for c in r2.cases}
    fkeys = sorted(field_cases)
    okeys = sorted(order_cases)
    rnd.shuffle(okeys)
    okeys = okeys[: (400 if quick else 6000)]
    if quick:
        rnd.shuffle(fkeys)
        fkeys = fkeys[:2500]
    jobs = []   # (variant, entries, kwargs, opts)
    ti = itertools.cycle(range(len(TITLES)))
    # field cases: pack up to 1 entry per disc? entries of different cases may overlap -> one disc per case,
    # on a 1440-sector .sdd with catalogue total 1023
    for k in fkeys:
        cat = field_cases[k]
        ents = [discs.to_entry(e) for e in cat]
        t = next(ti)
        jobs.append(("DFS", ents, dict(nsectors=1440, total=1023, ext="sdd", title=TITLES[t], cycle=(t * 37) & 255, opt=t & 3),
                     dict(curs=(36,), uis=[None], want_inf=(t % 4 == 0), want_titles=(t % 5 == 0))))
    for n, k in enumerate(okeys):
        cat = order_cases[k]
        t = next(ti)
        topbits = rnd.choice([0, 0, 1, 2, 3])
        ents = [discs.to_entry(e, topbits) for e in cat]
        variant = ("DFS", "WDFS", "OPUS")[n % 3]
        kw = dict(title=TITLES[t], cycle=(t * 53 + n) & 255, opt=n & 3)
        if variant == "WDFS":
            kw["split"] = n % (len(ents) + 1)
        if variant == "OPUS":
            kw["opus_letter"] = "ABCDEFGH"[n % 8]
        if variant == "DFS":
            kw["nsectors"] = (400, 800)[n % 2]
        jobs.append((variant, ents, kw, dict(curs=(36, 65, 98)[: (3 if n % 4 == 0 else 1)], uis=UIS if n % 2 == 0 else [None],
                                             want_inf=(n % 7 == 0))))
    # big catalogues: 31 entries (Acorn, Opus), 62 (Watford, with 0/1/31 in either half)
    nbig = 12 if quick else 120
    chars = [c for c in range(0x21, 0x7F) if chr(c) not in '.:#*"/']   # '/' cannot be extracted (C12's subject)
    for n in range(nbig):
        variant = ("DFS", "WDFS", "OPUS")[n % 3]
        cnt = 31 if variant != "WDFS" else 62
        first_start = 700 if variant != "OPUS" else 690
        ents, seen, start = [], set(), first_start
        while len(ents) < cnt and start > 8:
            name = bytes(rnd.choice(chars) for _ in range(rnd.randint(1, 7)))
            d = rnd.choice([36, 36, 65, 97, 33, 94, 91])
            key = (chr(d).lower(), name.lower())
            if key in seen:
                continue
            seen.add(key)
            ln = rnd.choice([0, 1, 255, 256, 257, 513, 1000, 2560])
            start -= (ln + 255) // 256 + rnd.choice([0, 0, 1, 3])
            ents.append(mkdisc.entry(name, d, rnd.random() < 0.3, rnd.getrandbits(18), rnd.getrandbits(18), ln, start))
        kw = dict(title=TITLES[n % len(TITLES)], cycle=rnd.getrandbits(8), opt=n & 3)
        if variant == "WDFS":
            n1, n2 = [(31, 31), (0, 31), (1, 31), (31, 0), (31, 1), (15, 16)][(n // 3) % 6]
            ents = ents[: n1 + n2]
            kw["split"] = min(n1, len(ents))
        if variant == "OPUS":
            kw["opus_letter"] = "ABCDEFGH"[(n // 3) % 8]
        jobs.append((variant, ents, kw, dict(curs=(36, 97), uis=UIS, want_inf=True)))

    with common.Scratch("c02") as scratch:
        def do(ij):
            i, (variant, ents, kw, opts) = ij
            sub = os.path.join(scratch, "d%d" % (i % 64))
            os.makedirs(sub, exist_ok=True)
            d = discs.build(variant, ents, sub, "c%d" % i, salt=(i % 250) + 1, **kw)
            evs = events_for_disc(dfs, d, sub, i, **opts)
            os.unlink(d.path)
            return evs
        allev = common.pmap(do, list(enumerate(jobs)))
        trace = os.path.join(scratch, "trace.ndjson")
        nev = 0
        with open(trace, "w") as f:
            for i, evs in enumerate(allev):
                variant, ents, kw, opts = jobs[i]
                for e in evs:
                    f.write(json.dumps(e) + "\n")
                    nev += 1
                    chk.case((variant, i, e["e"], e.get("ui"), e.get("cur")), nontrivial=len(ents) > 0)
        chk.sample(dict(variant=jobs[0][0], entries=[dict(e, name=e["name"].decode("latin1")) for e in jobs[0][1]], events=allev[0][:2]))
        chk.sample(dict(variant=jobs[-1][0], n_entries=len(jobs[-1][1]), first_event_obs=allev[-1][0]["obs"][:2]))
        ok, tr = common.validate_trace("TraceCatalog", "TraceCatalog.cfg", trace, timeout=1500)
        chk.add_tlc("TraceCatalog", tr)
        chk.traces += len(jobs)
        if not ok or not tr.verdicts:
            raise MachineryError("TraceCatalog did not consume the whole trace:\n" + tr.output[-3000:])
        flat = [(i, e) for i, evs in enumerate(allev) for e in evs]
        for ln in sorted(tr.verdicts[-1]["bad"]):
            i, e = flat[ln - 1]
            variant, ents, kw, opts = jobs[i]
            kwj = {k: (v if not isinstance(v, bytes) else v.hex()) for k, v in kw.items()}
            chk.violation("%s:%s" % (variant, e["e"]),
                          "disc %d (%s, %d entries, %r): `%s` observation contradicts Catalog.tla's requirement: %s"
                          % (i, variant, len(ents), kwj, e["e"], json.dumps(e)[:1200]),
                          dict(variant=variant, entries=[dict(x, name=x["name"].hex()) for x in ents], kw=kwj, event=e))
        chk.extra["discs"] = len(jobs)
        chk.extra["observations"] = nev
        chk.exhaustive = not quick


def replay(chk, path):
    run(chk, "quick", 1)
