"""C14 - free, space, sector-map and extract-unused agree with the catalogue and with each other.
Space.tla: every well-formed layout of <= 3 files (incl. empty files, adjacent files, both Watford halves, Opus
volume) -- TLC checks the coded walk / sector map / sentinel loop / free arithmetic against the set-based requirement;
each layout is stretched order-preservingly to real scale (start sectors needing the high bits), the four commands
run on the real dfs and TraceSpace.tla judges every observation; plus seeded layouts with up to 31/62 files."""
import os, json, random, re, shutil
import common, mkdisc, discs

FREE_RE = re.compile(r"^(\d+) Files ([0-9A-F]+) Sectors\s+([\d,]+) Bytes (Free|Used)$")


def scale(frags, cs, T, K):
    out = []
    for f in frags:
        out.append([dict(start=cs + (e["start"] - cs) * K, n=e["n"] * K) for e in f])
    return out, cs + (T - cs) * K


def build_layout(variant, frags, T, scratch, tag, salt, rnd, opus_letter="B"):
    """frags at real scale -> image; returns Disc + layout record for the trace."""
    names = []
    ents = []
    k = 0
    for f in frags:
        fe = []
        for e in f:
            ln = 0 if e["n"] == 0 else (e["n"] - 1) * 256 + rnd.choice([1, 255, 256])
            fe.append(mkdisc.entry("F%02d" % k, "$" if k % 3 else "D", False, 0, 0, ln, e["start"]))
            k += 1
        ents.append(fe)
    if variant == "DFS":
        ns = 400 if T <= 400 else (800 if T <= 800 else 1440)
        # (every third disc has a title whose first byte has its top bit set: only HDFS gives that bit a meaning)
        d = discs.build("DFS", ents[0], scratch, tag, nsectors=ns, total=T, salt=salt, ext="ssd" if ns <= 800 else "sdd",
                        title=(b"\xd3PACE" if salt % 3 == 0 else b"SPACE"))
        lay = dict(frags=frags, T=T, cs=2, base=2, maxfiles=31)
    elif variant == "WDFS":
        ns = 400 if T <= 400 else 800
        d = discs.build("WDFS", ents[0] + ents[1], scratch, tag, nsectors=ns, total=T, salt=salt, split=len(ents[0]),
                        title=(b"\xd3PACE" if salt % 3 == 0 else b"SPACE"))
        lay = dict(frags=frags, T=T, cs=4, base=4, maxfiles=62)
    else:
        d = discs.build("OPUS", ents[0], scratch, tag, salt=salt, opus_letter=opus_letter, title=b"SPACE")
        assert T == d.vol_len, (T, d.vol_len)
        lay = dict(frags=frags, T=T, cs=0, base=2, maxfiles=31)
    d.flat = [e for fe in ents for e in fe]
    # a second, different disc for multi-drive invocations (drive 1 under the physical policy)
    other = discs.build("DFS", [mkdisc.entry("OTHER", length=700, start=100)] if salt % 2 else [], scratch, tag + "-other", nsectors=400, salt=250, title=b"OTHER")
    d.other = other.path
    d.other_lay = dict(frags=[[dict(start=100, n=3)] if salt % 2 else []], T=400, cs=2, base=2, maxfiles=31)
    return d, lay


def observe(dfs, d, lay, scratch, eid):
    ev = []
    base = [dfs, "--file", d.path]
    T = lay["T"]
    # free
    # (every fourth run under a locale name that is not installed: the figures and their thousands separators are the program's own)
    o = common.run(base + ["free", d.drive], env=({"LANG": "xx_YY.UTF-8", "LC_NUMERIC": "de_DE.UTF-8"} if eid % 4 == 0 else None))
    obs = dict(fused=-1, ffree=-1, sused=-1, sfree=-1, bused=-1, bfree=-1)
    for ln in o.out.decode("latin1").split("\n"):
        m = FREE_RE.match(ln)
        if m:
            suf = "free" if m.group(4) == "Free" else "used"
            obs["f" + suf] = int(m.group(1))
            obs["s" + suf] = int(m.group(2), 16)
            obs["b" + suf] = int(m.group(3).replace(",", ""))
    ev.append(dict(e="free", id=eid, lay=lay, obs=obs, rc=o.rc if o.rc is not None else -9))
    # space
    o = common.run(base + ["space", d.drive])
    txt = o.out.decode("latin1").split("\n")
    gaps, total = [], -1
    if len(txt) >= 4 and txt[0].startswith("Gap sizes on disc"):
        try:
            gaps = [int(x, 16) for x in txt[1].split()]
        except ValueError:
            gaps = [-1]
        m = re.match(r"^Total space free = ([0-9A-F]+) sectors$", txt[3])
        total = int(m.group(1), 16) if m else -1
    ev.append(dict(e="space", id=eid, lay=lay, gaps=gaps, total=total, rc=o.rc if o.rc is not None else -9,
                   err=o.err.decode("latin1")[:200]))
    # space on several drives in one invocation: each section must still be the drive's own gaps (state must not leak)
    if d.variant != "OPUS":
        for order in ((d.drive, "1"), ("1", d.drive)):
            o = common.run([dfs, "--file", d.path, "--file", d.other] + ["space"] + list(order))
            secs = re.split(r"(?m)^Gap sizes on disc (\d+):\n", o.out.decode("latin1"))
            mine = None
            for j in range(1, len(secs) - 1, 2):
                if secs[j] == d.drive:
                    mine = secs[j + 1]
            gaps2, total2 = [-1], -1
            if mine is not None:
                lines2 = mine.split("\n")
                try:
                    gaps2 = [int(x, 16) for x in lines2[0].split()]
                except ValueError:
                    gaps2 = [-1]
                m2 = re.search(r"Total space free = ([0-9A-F]+) sectors", mine)
                total2 = int(m2.group(1), 16) if m2 else -1
            ev.append(dict(e="space", id=eid, lay=lay, gaps=gaps2, total=total2, rc=o.rc if o.rc is not None else -9, multi=" ".join(order),
                           err=o.err.decode("latin1")[:200]))
            # ... and so must the other drive's section (a blank disc half of the time), whichever comes first
            theirs = None
            for j in range(1, len(secs) - 1, 2):
                if secs[j] == "1":
                    theirs = secs[j + 1]
            gaps3, total3 = [-1], -1
            if theirs is not None:
                try:
                    gaps3 = [int(x, 16) for x in theirs.split("\n")[0].split()]
                except ValueError:
                    gaps3 = [-1]
                m3 = re.search(r"Total space free = ([0-9A-F]+) sectors", theirs)
                total3 = int(m3.group(1), 16) if m3 else -1
            ev.append(dict(e="space", id=eid, lay=d.other_lay, gaps=gaps3, total=total3, rc=o.rc if o.rc is not None else -9, multi=" ".join(order) + " (drive 1)",
                           err=o.err.decode("latin1")[:200]))
    # sector-map
    surf = d.drive.rstrip("ABCDEFGH")
    o = common.run(base + ["sector-map", surf])
    labels = []
    for ln in o.out.decode("latin1").split("\n")[2:]:
        m = re.match(r"^(\d{6}): (.*)$", ln)
        if not m:
            continue
        row = m.group(2)
        for p in range(0, len(row), 13):
            cell = row[p:p + 12].rstrip(" ")
            if cell:
                labels.append(cell)
    owners = []
    name_to_idx = {}
    for i, e in enumerate(d.flat):
        nm = "%c.%s" % (e["dir"], e["name"].decode("latin1"))
        if d.variant == "OPUS":
            nm = ":%s.%s" % (d.drive[-1], nm)
        name_to_idx[nm] = i + 1
    region = labels[d.origin:d.origin + T] if d.variant == "OPUS" else labels[:T]
    for lab in region:
        if lab == "-":
            owners.append(-1)
        elif lab == "catalog":
            owners.append(0)
        elif lab in name_to_idx:
            owners.append(name_to_idx[lab])
        else:
            owners.append(-2)
    if d.variant != "OPUS" and len(labels) != T:
        owners.append(-3)        # wrong number of sectors shown
    ev.append(dict(e="map", id=eid, lay=lay, owners=owners, rc=o.rc if o.rc is not None else -9))
    # extract-unused
    dest = os.path.join(scratch, "u%d" % eid)
    os.makedirs(dest, exist_ok=True)
    o = common.run(base + ["--drive", surf, "extract-unused", dest])
    runs = []
    for fn in sorted(os.listdir(dest)):
        m = re.match(r"^unused_([0-9A-F]{3,})\.bin$", fn)
        if not m:
            runs.append([-1, -1, 0])
            continue
        first = int(m.group(1), 16)
        data = open(os.path.join(dest, fn), "rb").read()
        n = len(data) // 256
        ok = 1 if (len(data) % 256 == 0 and data == bytes(d.img[first * 256:(first + n) * 256])) else 0
        if d.variant == "OPUS":
            lo, hi = max(first, d.origin), min(first + n, d.origin + T)
            if hi <= lo:
                continue
            runs.append([lo - d.origin, hi - lo, ok])
        else:
            runs.append([first, n, ok])
    m = re.search(rb"(\d+) files were written", o.out)
    nrep = int(m.group(1)) if m else -1
    if nrep != len(os.listdir(dest)):
        runs.append([-2, -2, 0])
    shutil.rmtree(dest, ignore_errors=True)
    ev.append(dict(e="unused", id=eid, lay=lay, runs=runs, rc=o.rc if o.rc is not None else -9))
    return ev


def run(chk, tier, seed):
    bdir = common.build("san")
    dfs = common.exe(bdir, "dfs")
    rnd = random.Random(seed)
    quick = tier == "quick"
    chk.rule = ("layouts = every well-formed layout of <= 3 files Space.tla reaches (sizes 0..2 units, adjacent/gapped/empty files, "
                "both Watford halves, Opus volume), stretched by K to real sector numbers; plus seeded layouts of up to 31/62 files; "
                "evaluation = one command on one layout; non-trivial = layout with a file; distinct by (variant, layout, K, command)")
    chk.assumptions = ["the `space` order of gaps is not fixed by the statement: compared as a multiset",
                       "Watford well-formedness includes: all files of the second catalogue lie above those of the first",
                       "whether an empty file's start sector counts towards `free`'s used sectors is accepted either way"]
    jobs = []
    for variant, cfg, cs, T in (("DFS", "Space_small1.cfg", 2, 9), ("WDFS", "Space_small2.cfg", 4, 11), ("OPUS", "Space_opus.cfg", 0, 9)):
        r = common.tlc("Space", cfg)
        chk.add_tlc(cfg, r)
        if r.violated:
            chk.violation("model:%s:%s" % (variant, r.violated), "Space.tla (%s): coded walk/map violates %s\n%s" %
                          (cfg, r.violated, "\n".join(r.cex[:30])), dict(spec="Space.tla", cfg=cfg))
        lays = sorted({json.dumps(c, sort_keys=True): c for c in r.cases}.items())
        if len(lays) != r.distinct:
            raise common.MachineryError("Space %s: %d layouts emitted for %d states" % (cfg, len(lays), r.distinct))
        rnd.shuffle(lays)
        take = lays[: (130 if quick else 2500)]
        # always include the degenerate layouts (no file at all, a single file in either fragment)
        take += [(k, fr) for k, fr in lays[len(take):] if sum(len(f) for f in fr) == 0 or
                 (sum(len(f) for f in fr) == 1 and max(e["n"] for f in fr for e in f) == 1 and max(e["start"] for f in fr for e in f) in (cs, cs + 1, T - 1))]
        # always include layouts with empty fragments / empty files
        for k, fr in take:
            Ks = {"DFS": [1, 50, 140], "WDFS": [1, 100], "OPUS": [100]}[variant]
            K = Ks[len(jobs) % len(Ks)]
            jobs.append((variant, fr, cs, T, K))
    # seeded big layouts
    nbig = 9 if quick else 90
    for n in range(nbig):
        variant = ("DFS", "WDFS", "OPUS")[n % 3]
        cs = {"DFS": 2, "WDFS": 4, "OPUS": 0}[variant]
        T = {"DFS": rnd.choice([400, 800, 1023]), "WDFS": 800, "OPUS": 900}[variant]
        cnt = rnd.choice([5, 20, 31]) if variant != "WDFS" else rnd.choice([10, 40, 62])
        pos, files = T, []
        while len(files) < cnt and pos > cs + 2:
            n_ = rnd.choice([0, 0, 1, 1, 2, 5, 20])
            gap = rnd.choice([0, 0, 1, 3, 10])
            st = pos - gap - n_
            if st < cs:
                break
            files.append(dict(start=st if n_ else rnd.randint(cs, T), n=n_))
            if n_:
                pos = st
        if variant == "WDFS":
            k = rnd.choice([0, len(files) // 2, len(files)])
            k = max(k, len(files) - 31)
            k = min(k, 31)
            # second catalogue holds the files that lie higher: the first k (descending list) go to fragment 2
            hi, lo = files[:k], files[k:k + 31]
            frags = [lo, hi]
        else:
            frags = [files[:31]]
        jobs.append((variant, frags, cs, T, 0))
    with common.Scratch("c14") as scratch:
        def do(ij):
            i, (variant, fr, cs, T, K) = ij
            sub = os.path.join(scratch, "j%d" % i)
            os.makedirs(sub, exist_ok=True)
            rr = random.Random(seed * 7919 + i)
            if K:
                rf, rT = scale(fr, cs, T, K)
            else:
                rf, rT = fr, T
            d, lay = build_layout(variant, rf, rT, sub, "s%d" % i, 1 + i % 200, rr, opus_letter="ABCDEFGH"[i % 8])
            evs = observe(dfs, d, lay, sub, i)
            shutil.rmtree(sub, ignore_errors=True)
            return evs
        res = common.pmap(do, list(enumerate(jobs)))
        events = [e for evs in res for e in evs]
        for (variant, fr, cs, T, K), evs in zip(jobs, res):
            for e in evs:
                chk.case((variant, json.dumps(fr), K, e["e"]), nontrivial=any(len(f) for f in fr))
        chk.sample(dict(variant=jobs[0][0], model_layout=jobs[0][1], K=jobs[0][4], events=[{k: v for k, v in e.items() if k != "owners"} for e in res[0]]))
        trace = os.path.join(scratch, "trace.ndjson")
        with open(trace, "w") as f:
            for e in events:
                f.write(json.dumps(e) + "\n")
        ok, tr = common.validate_trace("TraceSpace", "TraceSpace.cfg", trace, timeout=2400)
        chk.add_tlc("TraceSpace", tr)
        chk.traces += len(jobs)
        if not ok or not tr.verdicts:
            raise common.MachineryError("TraceSpace did not consume the whole trace:\n" + tr.output[-3000:])
        for ln in sorted(tr.verdicts[-1]["bad"]):
            e = events[ln - 1]
            variant = jobs[e["id"]][0]
            short = {k: v for k, v in e.items() if k not in ("owners",)}
            chk.violation("%s:%s" % (variant, e["e"]), "`%s` on a %s layout contradicts Space.tla's requirement: %s" % (e["e"], variant, json.dumps(short)[:900]),
                          dict(variant=variant, event=e))
        chk.extra["layouts"] = len(jobs)
        chk.exhaustive = not quick


def replay(chk, path):
    run(chk, "quick", 1)
