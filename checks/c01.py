"""C01 - dfs delivers each catalogued file's bytes exactly; type/list/dump are the documented renderings.
(1) Disc.tla cases that lie inside their region, scaled to real images of every region kind;
(2) Catalog.tla single-file catalogues over the start/length boundary classes (10-bit starts, >64 KiB lengths);
(3) seeded full catalogues (31 / 62 files, both Watford halves, Opus volumes, adjacent files, gaps, empty files);
(4) RenderGen.tla bodies rendered by type/list/dump.   All observations are judged by TraceDisc.tla."""
import os, json, random, shutil
import common, mkdisc, discs, discread


def read_events_for_entries(dfs, d, stamps, eid0, names=None, extract=True):
    """type --binary for each entry of disc d (+ one extract-files run) -> read events."""
    ev = []
    base = [dfs, "--file", d.path]
    g = dict(o=d.origin, L=d.vol_len, S=d.nsectors, F=d.nsectors)

    def mk(e, cmd, rc, err, data):
        segs, foreign = [], 0
        for sg in stamps.segments(data, d.salt, d.origin + e["start"]):
            if sg is None or sg[0] != d.salt:
                foreign += 1
            else:
                segs.append(dict(lba=sg[1], len=sg[2]))
        return dict(e="read", cmd=cmd, id=eid0, g=g, start=e["start"], nsec=e["length"] // 256, rem=e["length"] % 256,
                    kind=d.variant, rc=rc, err=err, segs=segs, foreign=foreign, name=e["name"].decode("latin1"))
    for k, e in enumerate(d.entries):
        # every way of reaching the file: fully qualified, or with drive and/or directory taken from --drive / --dir
        dch, nm_ = chr(e["dir"]), e["name"].decode("latin1")
        form = (k + eid0) % 4
        if form == 0:
            argv = base + ["type", "--binary", "%s%s.%s" % (d.colon, dch, nm_)]
        elif form == 1:
            # (a --ui option after them must leave --drive and --dir as they are)
            argv = base + ["--drive", d.drive, "--dir", dch] + (["--ui", ("acorn", "watford", "opus")[k % 3]] if k % 2 else []) + ["type", "--binary", nm_]
        elif form == 2:
            argv = base + ["--dir", dch, "type", "--binary", d.colon + nm_]              # drive given, directory from --dir
        else:
            argv = base + ["--drive", d.drive, "--dir", "Z", "type", "--binary", "%s.%s" % (dch, nm_)]   # directory given, drive from --drive
        o = common.run(argv, timeout=60)
        ev.append(mk(e, "type-b", o.rc if o.rc is not None else -9, 1 if o.err.strip() else 0, o.out))
    if extract:
        dest = d.path + ".x"
        os.makedirs(dest, exist_ok=True)
        o = common.run(base + ["--drive", d.drive, "--dir", ".", "extract-files", dest], timeout=120)
        for e in d.entries:
            fn = os.path.join(dest, "%c.%s" % (e["dir"], e["name"].decode("latin1")))
            try:
                data = open(fn, "rb").read()
            except OSError:
                data = b""
            ev.append(mk(e, "extract", o.rc if o.rc is not None else -9, 1 if o.err.strip() else 0, data))
        shutil.rmtree(dest, ignore_errors=True)
        # the same with one of the disc's own directories as the current one: its files are written without prefix, all others
        # (those of $ included) keep theirs, so equal names in two directories still arrive as two files
        dirs = sorted({e["dir"] for e in d.entries})
        if len(dirs) > 1:
            cur = dirs[-1]
            os.makedirs(dest, exist_ok=True)
            o = common.run(base + ["--drive", d.drive, "--dir", chr(cur), "extract-files", dest], timeout=120)
            for e in d.entries:
                nm_ = e["name"].decode("latin1")
                fn = os.path.join(dest, nm_ if e["dir"] == cur else "%c.%s" % (e["dir"], nm_))
                try:
                    data = open(fn, "rb").read()
                except OSError:
                    data = b""
                ev.append(mk(e, "extract", o.rc if o.rc is not None else -9, 1 if o.err.strip() else 0, data))
            shutil.rmtree(dest, ignore_errors=True)
    return ev


def run(chk, tier, seed):
    bdir = common.build("ndebug")
    dfs = common.exe(bdir, "dfs")
    rnd = random.Random(seed)
    quick = tier == "quick"
    chk.rule = ("cases: Disc.tla walks inside their region (all region kinds), Catalog.tla single-file catalogues over start/length "
                "classes, seeded full catalogues, RenderGen.tla bodies; evaluation = one command on one file; non-trivial = "
                "non-empty body; distinct by (image kind, start, length, command) or (rendering, body)")
    chk.assumptions = ["sector stamps identify origin of delivered bytes", "dump offsets column is not judged (statement fixes only the 8-byte hex+ASCII rows)"]
    events = []
    # ---- (1) Disc.tla, in-extent cases
    r = common.tlc("Disc", "Disc_small.cfg")
    chk.add_tlc("Disc_small.cfg", r)
    if r.violated:
        chk.violation("model:" + r.violated, "Disc.tla: %s\n%s" % (r.violated, "\n".join(r.cex[:40])), dict(spec="Disc.tla"))
    cases = {json.dumps(c, sort_keys=True): c for c in r.cases}
    inext = [c for k, c in sorted(cases.items()) if c["st"] == "done" and (c["nsec"] or c["rem"])]
    if quick:
        rnd.shuffle(inext)
        inext = inext[:150]
    # ---- (2) Catalog.tla single-file catalogues
    r2 = common.tlc("Catalog", "Catalog_layout.cfg")
    chk.add_tlc("Catalog_layout.cfg", r2)
    lay = sorted({json.dumps(c, sort_keys=True): c for c in r2.cases}.items())
    if quick:
        rnd.shuffle(lay)
        lay = lay[:120]
    # ---- (4) RenderGen
    r3 = common.tlc("RenderGen", "RenderGen.cfg")
    chk.add_tlc("RenderGen.cfg", r3)
    if r3.violated:
        chk.violation("model:" + r3.violated, "RenderGen.tla: requirement operators inconsistent: %s" % r3.violated, dict(spec="RenderGen.tla"))
    bodies = sorted({json.dumps(c): c for c in r3.cases}.values(), key=lambda b: (len(b), b))
    if len(bodies) != r3.distinct:
        raise common.MachineryError("RenderGen: %d bodies emitted for %d states" % (len(bodies), r3.distinct))
    with common.Scratch("c01") as scratch:
        def job_disc(ic):
            i, c = ic
            sub = os.path.join(scratch, "a%d" % i)
            os.makedirs(sub, exist_ok=True)
            evs = []
            for j, cc in enumerate(discread.concretise(c, sub, "c%d" % i, with_low=(i % 2 == 0))):
                evs += discread.observe_read(dfs, cc, sub, 100000 + i * 10 + j)
            shutil.rmtree(sub, ignore_errors=True)
            return evs

        def job_layout(ikc):
            i, (k, cat) = ikc
            sub = os.path.join(scratch, "b%d" % i)
            os.makedirs(sub, exist_ok=True)
            ents = [discs.to_entry(e) for e in cat]
            salt = 60 + i % 100
            variant = "DFS"
            d = discs.build(variant, ents, sub, "l%d" % i, nsectors=1440, total=1023, ext="sdd", salt=salt, title=b"LAYOUT")
            st = mkdisc.Stamps(); st.add(salt, 1440)
            evs = read_events_for_entries(dfs, d, st, 200000 + i)
            shutil.rmtree(sub, ignore_errors=True)
            return evs

        def job_big(n):
            sub = os.path.join(scratch, "g%d" % n)
            os.makedirs(sub, exist_ok=True)
            rr = random.Random(seed * 1000 + n)
            variant = ("DFS", "WDFS", "OPUS")[n % 3]
            cnt = 31 if variant != "WDFS" else 62
            ents, start = [], (799 if variant != "OPUS" else 899)
            i = 0
            low = 4 if variant == "WDFS" else (2 if variant == "DFS" else 0)
            while len(ents) < cnt:
                ln = rr.choice([0, 1, 255, 256, 257, 700, 2560, 5000])
                nsec = (ln + 255) // 256
                gap = rr.choice([0, 0, 0, 1, 2])
                ns = start + 1 - nsec - gap if ents else start + 1 - nsec
                if ns < low + (cnt - len(ents)):
                    ln, nsec, ns = 0, 0, max(low, start)
                # every name exists in two directories, so a lookup that picks the wrong directory delivers the wrong body; and some
                # names are prefixes of later ones (F1 / F10..), so a lookup that stops at a prefix delivers the wrong body too
                ents.append(mkdisc.entry(("F%d" if n % 2 else "F%02d") % (i // 2), "$" if i % 2 else "A", False, 0, 0, ln, ns if nsec else max(low, min(ns, start))))
                if nsec:
                    start = ns - 1
                i += 1
            kw = dict(title=b"BIG%d" % n)
            if variant == "WDFS":
                kw["split"] = [31, 0, 1, 31, 20][n % 5]
                if kw["split"] != 31:
                    ents = ents[:31 + kw["split"]] if kw["split"] else ents[:31]
            if variant == "OPUS":
                kw["opus_letter"] = "ABCDEFGH"[n % 8]
            salt = 170 + n % 50
            d = discs.build(variant, ents, sub, "g%d" % n, salt=salt, nsectors=800 if variant != "OPUS" else None, **kw)
            st = mkdisc.Stamps(); st.add(salt, d.nsectors)
            evs = read_events_for_entries(dfs, d, st, 300000 + n)
            shutil.rmtree(sub, ignore_errors=True)
            return evs

        def job_mixed(n):
            """two-sided interleaved image and MMB whose surfaces hold different file-system variants"""
            sub = os.path.join(scratch, "m%d" % n)
            os.makedirs(sub, exist_ok=True)
            kinds = [("DFS", "WDFS"), ("WDFS", "DFS"), ("WDFS", "WDFS")][n % 3]
            surfs, allents = [], []
            for si, variant in enumerate(kinds):
                salt = 200 + 2 * n + si
                ents = [mkdisc.entry("S%dF%02d" % (si, i), "$", False, 0, 0, 300 + i, 390 - 2 * i) for i in range(12 if variant == "DFS" else 40)]
                if variant == "DFS":
                    img = mkdisc.surface_dfs(400, salt, title=b"MIX%d" % si, entries=ents)
                else:
                    img = mkdisc.surface_wdfs(400, salt, title=b"MIX%d" % si, entries1=ents[:20], entries2=ents[20:])
                surfs.append((img, ents, salt))
            container = n % 2
            if container == 0:
                path = mkdisc.write(os.path.join(sub, "mixed.dsd"), mkdisc.container_interleaved(surfs[0][0], surfs[1][0], 10))
                drives = ["0", "2"]
            else:
                big = [mkdisc.blank_surface(800, 0) for _ in surfs]
                for b, (img, ents, salt) in zip(big, surfs):
                    b[:len(img)] = img
                    # the slot is an 80-track surface: re-stamp the rest with the same salt
                    for l in range(400, 800):
                        b[l * 256:(l + 1) * 256] = mkdisc.stamp(salt, l)
                path = mkdisc.write(os.path.join(sub, "mixed.mmb"), mkdisc.container_mmb({0: bytes(big[0]), 1: bytes(big[1])}))
                drives = ["0", "2"]
            evs = []
            for (img, ents, salt), drive in zip(surfs, drives):
                st = mkdisc.Stamps(); st.add(salt, 800)
                d = discs.Disc(path=path, entries=ents, colon=":%s." % drive, drive=drive, origin=0, vol_len=400 if container == 0 else 800,
                               nsectors=400 if container == 0 else 800, salt=salt, variant="mixed-%s-%s" % kinds, img=img)
                evs += read_events_for_entries(dfs, d, st, 500000 + n * 10 + int(drive), extract=True)
            shutil.rmtree(sub, ignore_errors=True)
            return evs

        def job_render(ib):
            i, group = ib
            sub = os.path.join(scratch, "r%d" % i)
            os.makedirs(sub, exist_ok=True)
            ents, start = [], 2 + len(group)
            writes = []
            for j, body in enumerate(group):
                start -= 1
                ents.append(mkdisc.entry("R%02d" % j, length=len(body), start=start))
                writes.append((start, bytes(body)))

            def bw(img, origin):
                for s, b in writes:
                    mkdisc.put(img, origin + s, b.ljust(256, b"\xEE"))
            d = discs.build("DFS", ents, sub, "r%d" % i, nsectors=400, salt=3, title=b"RENDER", body_writer=bw)
            evs = []
            for j, body in enumerate(group):
                evs += discread.observe_render(dfs, d.path, "R%02d" % j, body, 400000 + i * 100 + j)
            shutil.rmtree(sub, ignore_errors=True)
            return evs
        groups = [bodies[i:i + 31] for i in range(0, len(bodies), 31)]
        nbig = 6 if quick else 48
        res = common.pmap(job_disc, list(enumerate(inext)))
        res += common.pmap(job_layout, list(enumerate(lay)))
        res += common.pmap(job_big, list(range(nbig)))
        res += common.pmap(job_mixed, list(range(6 if quick else 24)))
        res += common.pmap(job_render, list(enumerate(groups)))
        for evs in res:
            events += evs
        for e in events:
            if e["e"] == "read":
                chk.case((e["kind"], e["start"], e["nsec"], e["rem"], e["cmd"]), nontrivial=(e["nsec"] + e["rem"]) > 0)
            else:
                chk.case((e["cmd"], tuple(e["body"])), nontrivial=len(e["body"]) > 0)
        chk.sample({k: v for k, v in events[0].items() if k != "stamps"})
        chk.sample(events[-1])

        def describe(e):
            if e["e"] == "read":
                return ("%s:%s" % (e["kind"], e["cmd"]),
                        "%s of an entry start=%d length=%d on %s image (region %r): rc=%s delivered %d chunks, %d foreign/unidentified; last=%s"
                        % (e["cmd"], e["start"], e["nsec"] * 256 + e["rem"], e["kind"], e["g"], e["rc"], len(e["segs"]), e["foreign"], e["segs"][-2:]), e)
            return ("render:%s" % e["cmd"], "%s of body %r printed %r" % (e["cmd"], e["body"], e.get("out", e.get("rows"))), e)
        discread.judge(chk, events, scratch, describe)
        chk.traces += len(inext) + len(lay) + nbig + len(groups)
        chk.extra["parts"] = dict(disc_cases=len(inext), layout_catalogues=len(lay), big_catalogues=nbig, render_bodies=len(bodies))
        chk.exhaustive = not quick


def replay(chk, path):
    run(chk, "quick", 1)
