"""Shared by C01 and C17: replay of Disc.tla cases (file bodies read near/over every kind of boundary) and of
Catalog.tla layouts into real images; observations judged by TraceDisc.tla."""
import os, json, re
import common, mkdisc, discs

# model region (o,L,S,F) -> list of concrete builders; each returns a dict describing the real geometry
def _key(g):
    return (g["o"], g["L"], g["S"], g["F"])


def concretise(case, scratch, tag, with_low=False, long_len=False):
    """Build real image(s) for one Disc.tla case. Returns list of dict(path, argv_prefix, drive, colon, g, start,
    nsec, rem, stamps, own_salt, kind)."""
    g, s, nsec, rem = case["reg"], case["start"], case["nsec"], case["rem"]
    if long_len:
        # the same extent relative to the boundary, but 256 sectors longer at the front: the length needs bits 16-17 of the field
        s, nsec = s - 256, nsec + 256
    bm = min(g["L"], g["S"] - g["o"], g["F"] - g["o"])
    length = nsec * 256 + rem
    out = []

    def ent(start):
        es = [mkdisc.entry("F", length=length, start=start, load=0x1900, exe=0x8023)]
        if with_low:
            es.append(mkdisc.entry("LOW", length=300, start=6))
        return es
    k = _key(g)
    if k == (0, 8, 8, 8):
        for variant, n in (("DFS", 400), ("WDFS", 800)):
            st = s + n - bm
            salt = 11
            d = discs.build(variant, ent(st), scratch, "%s-%s" % (tag, variant), nsectors=n, salt=salt, title=b"REGA")
            stamps = mkdisc.Stamps(); stamps.add(salt, n)
            out.append(dict(d=d, files=[d.path], drive="0", g=dict(o=0, L=n, S=n, F=n), start=st, stamps=stamps, own=salt, kind=variant + "-whole"))
    elif k == (0, 8, 8, 16):
        # two-sided interleaved file, both sides
        n = 400
        imgs = []
        for side, salt in ((0, 21), (1, 22)):
            st = s + n - bm
            imgs.append(mkdisc.surface_dfs(n, salt, title=b"SIDE%d" % side, entries=ent(st)))
        path = mkdisc.write(os.path.join(scratch, tag + "-two.dsd"), mkdisc.container_interleaved(imgs[0], imgs[1], 10))
        stamps = mkdisc.Stamps(); stamps.add(21, n); stamps.add(22, n)
        for side, salt, drive in ((0, 21, "0"), (1, 22, "2")):
            out.append(dict(d=None, files=[path], drive=drive, g=dict(o=0, L=n, S=n, F=2 * n), start=s + n - bm, stamps=stamps, own=salt, kind="dsd-side%d" % side))
        # a one-sided disc in a two-sided image: side 1 never formatted (80 tracks: the only geometry that holds side 0's file system)
        n = 800
        st = s + n - bm
        side0 = mkdisc.surface_dfs(n, 23, title=b"HALF", entries=ent(st))
        for fill, ext in ((0xE5, "dsd"), (0x00, "dsd")):
            path = mkdisc.write(os.path.join(scratch, "%s-half%02x.%s" % (tag, fill, ext)), mkdisc.container_interleaved(side0, bytes([fill]) * (n * 256), 10))
            stamps = mkdisc.Stamps(); stamps.add(23, n)
            out.append(dict(d=None, files=[path], drive="0", g=dict(o=0, L=n, S=n, F=2 * n), start=st, stamps=stamps, own=23, kind="dsd-blank-side1"))
        # MMB: slots 0,1,2 present; test slot 1 (drive 2 under the physical policy: slots go to 0,2,4..)
        n = 800
        slots = {}
        for slot in (0, 1, 2):
            slots[slot] = bytes(mkdisc.surface_dfs(n, 30 + slot, title=b"SLOT%d" % slot, entries=ent(s + n - bm)))
        path = mkdisc.write(os.path.join(scratch, tag + "-m.mmb"), mkdisc.container_mmb(slots))
        stamps = mkdisc.Stamps()
        for slot in (0, 1, 2):
            stamps.add(30 + slot, n)
        out.append(dict(d=None, files=[path], drive="2", g=dict(o=0, L=n, S=n, F=3 * n), start=s + n - bm, stamps=stamps, own=31, kind="mmb-slot1"))
        # the same with an unformatted slot in front of the one read: slot 1 is marked unformatted (its 200K are still there), slot 2 is read
        path = mkdisc.write(os.path.join(scratch, tag + "-mu.mmb"), mkdisc.container_mmb(slots, status={0: 0x0F, 1: 0xF0, 2: 0x00}))
        out.append(dict(d=None, files=[path], drive="4", g=dict(o=0, L=n, S=n, F=3 * n), start=s + n - bm, stamps=stamps, own=32, kind="mmb-slot2-after-unformatted"))
    elif k == (0, 8, 8, 6):
        n, f = 800, 600
        st = s + f - bm
        img = mkdisc.surface_dfs(n, 41, title=b"TRUNC", entries=ent(st))
        path = mkdisc.write(os.path.join(scratch, tag + "-trunc.ssd"), bytes(img[: f * 256]))
        stamps = mkdisc.Stamps(); stamps.add(41, n)
        out.append(dict(d=None, files=[path], drive="0", g=dict(o=0, L=n, S=n, F=f), start=st, stamps=stamps, own=41, kind="truncated"))
    else:
        letter = "B" if k == (4, 4, 12, 12) else "H"
        salt = 51
        # build once to learn the extent, then again with the right start
        d0 = discs.build("OPUS", [], scratch, tag + "-probe", salt=salt, opus_letter=letter)
        os.unlink(d0.path)
        L = d0.vol_len
        st = s + L - bm
        es = [mkdisc.entry("F", length=length, start=st, load=0x1900, exe=0x8023)]
        if with_low:
            es.append(mkdisc.entry("LOW", length=300, start=6))
        d = discs.build("OPUS", es, scratch, "%s-opus%s" % (tag, letter), salt=salt, opus_letter=letter, title=b"OPUSV")
        F = 1440
        if k == (8, 4, 12, 24):
            with open(d.path, "ab") as f:
                for l in range(1440, 1500):
                    f.write(mkdisc.stamp(59, l))
            F = 1500
        stamps = mkdisc.Stamps(); stamps.add(salt, 1440); stamps.add(59, 1500)
        out.append(dict(d=d, files=[d.path], drive="0" + letter, g=dict(o=d.origin, L=L, S=1440, F=F), start=st, stamps=stamps, own=salt,
                        kind="opus-%s%s" % (letter, "-long" if F > 1440 else "")))
    for o in out:
        o.update(nsec=nsec, rem=rem, case=case)
    return out


def observe_read(dfs, c, scratch, eid, rs=None):
    """type --binary and extract-files on concrete case c -> two read events.  rs: list collecting (description, read-stack
    hook events) of the type run for TraceReadStack.tla."""
    ev = []
    base = [dfs]
    for f in c["files"]:
        base += ["--file", f]
    colon = ":%s.$.F" % c["drive"]

    def project(data):
        segs, foreign = [], 0
        for sg in c["stamps"].segments(data, c["own"], c["g"]["o"] + c["start"]):
            if sg is None or sg[0] != c["own"]:
                foreign += 1
            else:
                segs.append(dict(lba=sg[1], len=sg[2]))
        return segs, foreign
    if rs is None:
        o = common.run(base + ["type", "--binary", colon], timeout=30)
    else:
        import readtrace
        o, evs = readtrace.record(base + ["type", "--binary", colon], scratch, "t%d" % eid, timeout=30, ctx=dict(vols=[[c["g"]["o"], c["g"]["L"]]]))
        rs.append(("%s image, entry start=%d sectors=%d+%d bytes, region %r: type --binary %s (rc=%s)" %
                   (c["kind"], c["start"], c["nsec"], c["rem"], c["g"], colon, o.rc), evs))
    segs, foreign = project(o.out)
    common_f = dict(id=eid, g=c["g"], start=c["start"], nsec=c["nsec"], rem=c["rem"], kind=c["kind"])
    ev.append(dict(common_f, e="read", cmd="type-b", rc=o.rc if o.rc is not None else -9, err=1 if o.err.strip() else 0,
                   segs=segs, foreign=foreign, clean=o.ok_alphabet()))
    dest = os.path.join(scratch, "x%d" % eid)
    os.makedirs(dest, exist_ok=True)
    o = common.run(base + ["--drive", c["drive"], "extract-files", dest], timeout=30)
    data = b""
    try:
        data = open(os.path.join(dest, "F"), "rb").read()
    except OSError:
        pass
    segs, foreign = project(data)
    ev.append(dict(common_f, e="read", cmd="extract", rc=o.rc if o.rc is not None else -9, err=1 if o.err.strip() else 0,
                   segs=segs, foreign=foreign, clean=o.ok_alphabet()))
    return ev


DUMP_RE = re.compile(r"^(\d{6})((?: [0-9A-F*]{2}){8}) (.{8})$", re.S)


def parse_dump(out):
    rows = []
    text = out.decode("latin1")
    # rows are newline-terminated, but the text column may itself never contain a newline (shown as '.')
    for line in text.split("\n"):
        if line == "":
            continue
        m = DUMP_RE.match(line)
        if not m:
            return None
        hx = [int(x, 16) for x in m.group(2).split() if x != "**"]
        rows.append(dict(hex=hx, asc=[ord(ch) for ch in m.group(3)]))
    return rows


def observe_render(dfs, path, name, body, eid):
    ev = []
    for cmd in ("type", "list", "dump"):
        o = common.run([dfs, "--file", path, cmd, name], timeout=30)
        e = dict(e="render", id=eid, cmd=cmd, body=list(body), rc=o.rc if o.rc is not None else -9)
        if cmd == "dump":
            rows = parse_dump(o.out)
            e["rows"] = rows if rows is not None else [dict(hex=[-1], asc=[-1])]
        else:
            e["out"] = list(o.out)
        ev.append(e)
    return ev


def judge(chk, events, scratch, describe):
    """Write events, run TraceDisc, turn rejected lines into violations via describe(event)->(signature, text, replay)."""
    trace = os.path.join(scratch, "trace.ndjson")
    with open(trace, "w") as f:
        for e in events:
            f.write(json.dumps(e) + "\n")
    ok, tr = common.validate_trace("TraceDisc", "TraceDisc.cfg", trace, timeout=1500)
    chk.add_tlc("TraceDisc", tr)
    if not ok or not tr.verdicts:
        raise common.MachineryError("TraceDisc did not consume the whole trace:\n" + tr.output[-3000:])
    for ln in sorted(tr.verdicts[-1]["bad"]):
        sig, text, rep = describe(events[ln - 1])
        chk.violation(sig, text, rep)
    return tr
