"""C15 - wildcards and file names select exactly the files DFS semantics say.
Afsp.tla: TLC checks the regex-element model of afsp.cc against the documented relation for every wildcard (over an
alphabet with all regex metacharacters) and every catalogued file; each wildcard is replayed through the real
AFSPMatcher and parse_filename/has_name (h_afsp) against the same file set, plus a CLI sample (info/type on real
discs incl. Opus volume letters); TraceAfsp.tla judges the selected sets."""
import os, json, random, subprocess, itertools, re
import common, mkdisc, discs

def cfg_consts(cfg):
    """the file-set constants of a .cfg (kept in one place: the TLC config)"""
    import re
    txt = open(os.path.join(common.SPEC, cfg)).read()
    def setof(name):
        return sorted(int(x) for x in re.search(name + r" = \{([^}]*)\}", txt).group(1).split(","))
    return dict(NameChars=setof("NameChars"), MaxName=int(re.search(r"MaxName = (\d+)", txt).group(1)), FileDirs=setof("FileDirs"),
                FileDrives=setof("FileDrives"), CtxDrive=0)


def files_of(c):
    out = []
    for d in c["FileDrives"]:
        for dd in c["FileDirs"]:
            for n in range(1, c["MaxName"] + 1):
                for nm in itertools.product(c["NameChars"], repeat=n):
                    out.append((d, dd, list(nm)))
    return out


def hx(codes):
    return bytes(codes).hex() or "-"


def run(chk, tier, seed):
    bdir = common.build("san")
    bfast = common.build("ndebug")      # the 2 million regex evaluations run in the pinned configuration
    rnd = random.Random(seed)
    quick = tier == "quick"
    chk.rule = ("wildcards = every string Afsp.tla enumerates (alphabet A a 1 # * . : ^ [ \\ - $, length <= MaxPat, with drive/dir "
                "qualifiers) x current directory; files = every (drive, dir, name<=2) over the name alphabet; evaluation = one wildcard "
                "against the whole file set (540 files) through the real matcher / name lookup; non-trivial = wildcard the requirement "
                "accepts as valid; distinct by (wildcard, current dir, kind)")
    chk.assumptions = ["drives written with a leading zero and names with a malformed drive part are outside the judged domain",
                       "the directory letter in type/list/dump lookups may be compared case-sensitively or not (statement silent)"]
    cfg = "Afsp_small.cfg" if quick else "Afsp_thorough.cfg"
    r = common.tlc("Afsp", cfg, timeout=3000)
    chk.add_tlc(cfg, r)
    if r.violated:
        chk.violation("model:" + r.violated, "Afsp.tla: regex-element model violates %s\n%s" % (r.violated, "\n".join(r.cex[:30])), dict(spec="Afsp.tla"))
    cases = sorted({json.dumps(c, sort_keys=True): c for c in r.cases}.values(), key=lambda c: (c["cdir"], c["pat"]))
    if len(cases) != r.distinct:
        raise common.MachineryError("Afsp: %d cases for %d states" % (len(cases), r.distinct))
    files = files_of(cfg_consts(cfg))
    chk.exhaustive = True
    # ---- in-process replay
    lines = []
    for c in cases:
        lines.append("P 0 %s %s" % (hx([c["cdir"]]), hx(c["pat"])))
        for (d, dd, nm) in files:
            lines.append("N %d %s %s" % (d, hx([dd]), hx(nm)))
        lines.append("Q 0 %s %s" % (hx([c["cdir"]]), hx(c["pat"])))
        for (d, dd, nm) in files:
            lines.append("L %s %s" % (hx([dd]), hx(nm)))
    p = subprocess.run([common.exe(bfast, "h_afsp")], input="\n".join(lines) + "\n", stdout=subprocess.PIPE, stderr=subprocess.PIPE,
                       text=True, timeout=1800, env=dict(os.environ, **common.SAN_ENV))
    outs = p.stdout.split("\n")
    events = []
    if p.returncode != 0 or len(outs) < len(lines):
        chk.violation("h_afsp-crash", "h_afsp died after %d of %d lines: rc=%s %s; next input %r" %
                      (len(outs) - 1, len(lines), p.returncode, p.stderr[-1500:], lines[max(0, len(outs) - 1)][:200]), dict(line=lines[max(0, len(outs) - 1)]))
    else:
        i = 0
        nf = len(files)
        for c in cases:
            pv = outs[i]
            res = outs[i + 1:i + 1 + nf]
            i += 1 + nf
            sel = [[d, dd, nm] for (d, dd, nm), rr in zip(files, res) if rr == "1"]
            events.append(dict(e="match", pat=c["pat"], cdir=c["cdir"], cdrive=0, valid=1 if pv.startswith("V") else 0, sel=sel,
                               seldrive=pv[2:] if pv.startswith("V") else ""))
            qv = outs[i]
            res = outs[i + 1:i + 1 + nf]
            i += 1 + nf
            sel = []
            if qv.startswith("OK"):
                qd = qv.split()[1]
                sel = [[d, dd, nm] for (d, dd, nm), rr in zip(files, res) if rr == "1" and str(d) == qd]
            events.append(dict(e="lookup", pat=c["pat"], cdir=c["cdir"], cdrive=0, sel=sel))
            chk.case(("match", tuple(c["pat"]), c["cdir"]), nontrivial=pv.startswith("V"))
            chk.case(("lookup", tuple(c["pat"]), c["cdir"]), nontrivial=qv.startswith("OK"))
    if events:
        chk.sample(dict(events[len(events) // 3], sel=events[len(events) // 3]["sel"][:5]))
    # ---- CLI sample: a disc per drive holding a subset of the files; info PATTERN / type NAME
    dfs = common.exe(bdir, "dfs")
    with common.Scratch("c15") as scratch:
        sub = [f for f in files if len(f[2]) == 2 and f[2][0] in (65, 97, 94, 36) and f[2][1] in (49, 91, 92, 45)]
        sub += [f for f in files if len(f[2]) == 1]
        sub = [f for f in sub if not any(g is not f and g[0] == f[0] and chr(g[1]).upper() == chr(f[1]).upper() and
                                         bytes(g[2]).upper() == bytes(f[2]).upper() and files.index(g) < files.index(f) for g in sub)]
        per_drive = {}
        for f in sub:
            per_drive.setdefault(f[0], []).append(f)
        argv = []
        cli_files = []
        for dno in sorted(per_drive):
            fl = per_drive[dno][:31]
            cli_files += fl
            ents = [mkdisc.entry(bytes(f[2]), f[1], False, 0, 0, 1, 2 + 40 - i) for i, f in enumerate(fl)]
            d = discs.build("DFS", ents, scratch, "afsp%d" % dno, nsectors=400, salt=5 + dno, title=b"AFSP")
            argv += ["--file", d.path]
        cli_cases = [c for c in cases if c["cdir"] == 36]
        rnd.shuffle(cli_cases)
        cli_cases = cli_cases[: (150 if quick else 1200)]
        cli_set = {(f[0], f[1], tuple(f[2])) for f in cli_files}

        def do(c):
            pat = bytes(c["pat"]).decode("latin1")
            o = common.run([dfs] + argv + ["--dir", chr(c["cdir"]), "info", pat], timeout=30)
            rows = discs.parse_info(o.out) or []
            return c, o, rows
        # the CLI selects from one drive only (the one the wildcard names); emulate Files restricted to the disc's contents
        cli_events = []
        for c, o, rows in common.pmap(do, cli_cases):
            if not o.ok_alphabet():
                chk.violation("cli-unclean", "dfs info %r ended uncleanly: %r" % (c["pat"], o.brief()), dict(pat=c["pat"]))
            chk.case(("cli-info", tuple(c["pat"])), nontrivial=o.rc == 0)
            cli_events.append((c, o.rc, rows))
        # CLI results are judged through the same TLC relation by converting them to match events over the CLI file subset:
        # selected files not on the discs cannot appear, so compare only membership of files that are on the discs
        for c, rc, rows in cli_events:
            selset = {(rw["dir"], tuple(rw["name"])) for rw in rows}
            # which drive did the wildcard address? requirement: RParse; observe through the matching in-process event
            ev = next((e for e in events if e["e"] == "match" and e["pat"] == c["pat"] and e["cdir"] == c["cdir"]), None)
            if ev is None:
                continue
            want = {(f[1], tuple(f[2])) for f in ev["sel"] if (f[0], f[1], tuple(f[2])) in cli_set}
            if ev["valid"] and rc == 0:
                if selset != want:
                    chk.violation("cli-info-differs", "dfs info %r listed %r but the matcher (judged by TraceAfsp) selects %r"
                                  % (bytes(c["pat"]), sorted(selset), sorted(want)), dict(pat=c["pat"]))
            elif ev["valid"] and rc != 0 and want:
                chk.violation("cli-info-fails", "dfs info %r failed (rc=%s) although files match" % (bytes(c["pat"]), rc), dict(pat=c["pat"]))
        # ---- the catalogue walk behind type/list/dump: catalogues of one fragment (Acorn, an Opus volume) and two (Watford, with
        # the first fragment holding 1, 3, half or all 31 of its entries), every file looked up by exact name, other case, drive
        # prefix, and names that are not there
        pool = [f for f in files if f[0] == 0]
        pool = [f for f in pool if not any(g is not f and chr(g[1]).upper() == chr(f[1]).upper() and bytes(g[2]).upper() == bytes(f[2]).upper()
                                           and pool.index(g) < pool.index(f) for g in pool)]
        rnd.shuffle(pool)
        layouts = [("DFS", None, 12), ("OPUS", None, 12), ("WDFS", 1, 9), ("WDFS", 3, 12), ("WDFS", 8, 16), ("WDFS", 31, 40), ("WDFS", 30, 40), ("WDFS", 0, 6)]
        find_events = []
        # names that are prefixes of one another, the shorter one earlier and later in the catalogue, within and across fragments
        pre_a = [(0, 36, [65]), (0, 36, [65, 49]), (0, 65, [49]), (0, 65, [49, 65]), (0, 36, [49, 65]), (0, 36, [49])]
        layouts += [("DFS", None, -1), ("DFS", None, -2), ("WDFS", 1, -1), ("WDFS", 3, -2), ("OPUS", None, -1)]
        for li, (variant, split, nfiles) in enumerate(layouts):
            fl = pool[li * 3: li * 3 + nfiles] if nfiles > 0 else (pre_a if nfiles == -1 else list(reversed(pre_a)))
            nfiles = len(fl)
            absent = [f for f in pool if f not in fl][:6]
            ents = [mkdisc.entry(bytes(f[2]), f[1], False, 0, 0, 20 + k, 100 + 2 * (nfiles - k)) for k, f in enumerate(fl)]
            kw = dict(nsectors=400, salt=60 + li, title=b"FIND") if variant != "OPUS" else dict(salt=60 + li, title=b"FIND")
            if variant == "WDFS":
                kw["split"] = split
            d = discs.build(variant, ents, scratch, "find%d" % li, **kw)
            cat = [[dict(dir=e["dir"], name=list(e["name"])) for e in ents]] if variant != "WDFS" else \
                  [[dict(dir=e["dir"], name=list(e["name"])) for e in ents[:split]], [dict(dir=e["dir"], name=list(e["name"])) for e in ents[split:]]]
            bodies = {(e["dir"], bytes(e["name"])): bytes(d.img[(d.origin + e["start"]) * 256:(d.origin + e["start"]) * 256 + e["length"]]) for e in ents}
            queries = []
            for f in fl:
                nm = bytes(f[2])
                queries.append((f[1], nm, ""))
                queries.append((f[1], nm.swapcase(), ""))
                queries.append((f[1], nm, ":0%s." % (d.drive[1:] if variant == "OPUS" else "")))
            for f in absent:
                queries.append((f[1], bytes(f[2]), ""))

            def dof(q):
                qdir, qname, pre = q
                arg = (pre + "%c." % qdir + qname.decode("latin1"))
                for cmd in (["type", "--binary"], ["dump"]):
                    o = common.run([dfs, "--file", d.path, "--drive", d.drive] + cmd + [arg], timeout=30)
                    # the file the requirement selects for this query (same name up to case, same directory up to case)
                    want = [b for (dd, nn), b in bodies.items() if nn.upper() == qname.upper() and chr(dd).upper() == chr(qdir).upper()]
                    if o.rc == 0 and cmd[0] == "type" and want and not any(o.out == b for b in want):
                        found = 3                  # succeeded, but with the content of another file
                    elif o.rc == 0 and (cmd[0] != "type" or any(o.out == b for b in bodies.values())):
                        found = 1
                    elif o.rc != 0 and b"not found" in o.err and o.ok_alphabet():
                        found = 0
                    else:
                        found = 2
                    yield dict(e="find", cat=cat, qdir=qdir, qname=list(qname), found=found, variant=variant, split=split if split is not None else -1,
                               cmd=cmd[0], arg=arg, err=o.err.decode("latin1")[-120:])
            for evs in common.pmap(lambda q: list(dof(q)), queries):
                find_events += evs
        for e in find_events:
            chk.case(("find", e["variant"], e["split"], e["cmd"], e["arg"]), nontrivial=e["found"] == 1)
        events += find_events
        chk.extra["catalogue_walk_lookups"] = len(find_events)
        trace = os.path.join(scratch, "trace.ndjson")
        with open(trace, "w") as f:
            for e in events:
                f.write(json.dumps(e) + "\n")
        if events:
            ok, tr = common.validate_trace("TraceAfsp", "TraceAfsp.cfg" if quick else "TraceAfsp_thorough.cfg", trace, timeout=3000)
            chk.add_tlc("TraceAfsp", tr)
            chk.traces += len(events)
            if not ok or not tr.verdicts:
                raise common.MachineryError("TraceAfsp did not consume the whole trace:\n" + tr.output[-3000:])
            for ln in sorted(tr.verdicts[-1]["bad"]):
                e = events[ln - 1]
                if e["e"] == "find":
                    where = "none"
                    for fi, fr in enumerate(e["cat"]):
                        if any(bytes(x["name"]).upper() == bytes(e["qname"]).upper() and chr(x["dir"]).upper() == chr(e["qdir"]).upper() for x in fr):
                            where = "frag%d" % (fi + 1)
                    chk.violation("find:%s:%s:%s" % (e["variant"], where, {0: "not-found", 1: "found", 2: "other", 3: "wrong-file"}[e["found"]]),
                                  "%s %s on a %s disc (first fragment holds %s entries): %s although the entry is in %s; stderr %r"
                                  % (e["cmd"], e["arg"], e["variant"], e["split"], {0: "reported not found", 1: "found", 2: "neither found nor 'not found'", 3: "delivered another file's content"}[e["found"]],
                                     where, e["err"]), dict(event=e))
                    continue
                pat = bytes(e["pat"]).decode("latin1")
                cls = "caret" if 94 in e["pat"] or e["cdir"] == 94 else "other"
                chk.violation("%s:%s" % (e["e"], cls),
                              "%s %r (current dir %r): valid=%s, selected %d files e.g. %r -- contradicts Afsp.tla's documented relation"
                              % ("info wildcard" if e["e"] == "match" else "file-name lookup", pat, chr(e["cdir"]), e.get("valid"),
                                 len(e["sel"]), e["sel"][:4]), dict(event=dict(e, sel=e["sel"][:20])))
        context_phase(chk, dfs, scratch, quick, rnd)
        chk.extra["wildcards"] = len(cases)
        chk.extra["files_per_wildcard"] = len(files)
        chk.extra["cli_runs"] = len(cli_cases)


def context_phase(chk, dfs, scratch, quick, rnd):
    """Context.tla: every sequence of --drive / --dir / --ui / --verbose / --show-config options (TLC) in front of `type F` and
    `info *`; the file F exists in every (drive, volume, directory) and says where it is."""
    r = common.tlc("Context", "Context.cfg")
    chk.add_tlc("Context.cfg", r)
    if r.violated:
        chk.violation("model:" + r.violated, "Context.tla: %s\n%s" % (r.violated, "\n".join(r.cex[:30])), dict(spec="Context.tla"))
    cases = sorted({json.dumps(c, sort_keys=True): c for c in r.cases}.values(), key=lambda c: json.dumps(c, sort_keys=True))
    if quick:
        rnd.shuffle(cases)
        cases = [c for c in cases if len(c["opts"]) <= 2] + [c for c in cases if len(c["opts"]) > 2][:250]
    E = mkdisc.entry

    def place(d, v, c):
        return ("%d%s%c" % (d, v or "-", c)).encode()
    def body_writer_for(d, v):
        def bw(img, origin):
            mkdisc.put(img, origin + 10, place(d, v, 36).ljust(256, b"."))
            mkdisc.put(img, origin + 12, place(d, v, 88).ljust(256, b"."))
        return bw
    # drive 0: Opus disc, volumes A and B; drive 1: Acorn DFS
    vols = []
    for k, L in enumerate("AB"):
        vols.append(dict(letter=L, start_track=1 + 30 * k, title=b"VOL" + L.encode(), entries=[E("F", "X", length=3, start=12), E("F", "$", length=3, start=10)]))
    img = mkdisc.surface_opus(80, 91, vols)
    for k, L in enumerate("AB"):
        o = (1 + 30 * k) * 18
        mkdisc.put(img, o + 10, place(0, L, 36).ljust(256, b"."))
        mkdisc.put(img, o + 12, place(0, L, 88).ljust(256, b"."))
    p0 = mkdisc.write(os.path.join(scratch, "ctx0.sdd"), bytes(img))
    img1 = mkdisc.surface_dfs(400, 92, title=b"DRIVE1", entries=[E("F", "X", length=3, start=12), E("F", "$", length=3, start=10)])
    mkdisc.put(img1, 10, place(1, "", 36).ljust(256, b"."))
    mkdisc.put(img1, 12, place(1, "", 88).ljust(256, b"."))
    p1 = mkdisc.write(os.path.join(scratch, "ctx1.ssd"), bytes(img1))

    def argv_of(opts):
        a = []
        for t in opts:
            if t["k"] == "drive":
                a += ["--drive", "%d%s" % (t["d"], t["v"])]
            elif t["k"] == "dir":
                a += ["--dir", chr(t["c"])]
            elif t["k"] == "ui":
                a += ["--ui", t["s"]]
            elif t["k"] == "verbose":
                a += ["--verbose"]
            else:
                a += ["--show-config"]
        return a

    def decode(b):
        m = re.match(rb"^([01])([AB-])([$X])$", b)
        return dict(drive=int(m.group(1)), vol="" if m.group(2) == b"-" else m.group(2).decode(), dir=m.group(3)[0]) if m else dict(drive=9, vol="?", dir=0)

    def do(c):
        base = [dfs, "--file", p0, "--file", p1] + argv_of(c["opts"])
        o = common.run(base + ["type", "--binary", "F"], timeout=30)
        o2 = common.run(base + ["info", "*"], timeout=30)
        rows = discs.parse_info(o2.out) or []
        # which F was listed: the one whose directory and start sector belong to ... info shows dir and name only, so read it back by drive
        listed = dict(drive=9, vol="?", dir=0)
        if len(rows) == 1 and bytes(rows[0]["name"]) == b"F":
            # info prints the file of the context; its directory is in the row, drive/volume are those of the type run with an explicit directory
            o3 = common.run(base + ["type", "--binary", "%c.F" % rows[0]["dir"]], timeout=30)
            listed = decode(o3.out)
        return dict(e="ctx", opts=c["opts"], obs=decode(o.out), listed=listed, rc=(o.rc or 0) + (o2.rc or 0), argv=argv_of(c["opts"]),
                    err=(o.err + o2.err).decode("latin1")[-160:])
    events = common.pmap(do, cases)
    # the same from inside: hook events of `type F` (which drive was selected, through which volume the body was read)
    import readtrace

    def do_inside(ic):
        i, c = ic
        base = [dfs, "--file", p0, "--file", p1] + argv_of(c["opts"])
        o, tev = readtrace.record(base + ["type", "--binary", "F"], scratch, "cx%d" % i, kinds={"select", "volread"})
        return dict(e="session", opts=c["opts"], selects=[e["drive"] for e in tev if e["e"] == "select"], origins=[e["origin"] for e in tev if e["e"] == "volread"],
                    argv=argv_of(c["opts"]), rc=o.rc if o.rc is not None else -9, obs={}, listed={}, err=o.err.decode("latin1")[-100:])
    inside = common.pmap(do_inside, list(enumerate(cases[: (200 if quick else len(cases))])))
    events += inside
    for e in events:
        chk.case(("context", e["e"], tuple(e["argv"])), nontrivial=len(e["argv"]) > 0)
    trace = os.path.join(scratch, "ctx-trace.ndjson")
    with open(trace, "w") as f:
        for e in events:
            f.write(json.dumps(e) + "\n")
    ok, tr = common.validate_trace("TraceContext", "TraceContext.cfg", trace, timeout=1200)
    chk.add_tlc("TraceContext", tr)
    chk.traces += len(events)
    if not ok or not tr.verdicts:
        raise common.MachineryError("TraceContext did not consume the whole trace:\n" + tr.output[-3000:])
    for ln in sorted(tr.verdicts[-1]["bad"]):
        e = events[ln - 1]
        if e["e"] == "session":
            chk.violation("context-inside:%s" % "+".join(sorted({t["k"] for t in e["opts"]})),
                          "dfs %s type F: select_drive was asked for %r and the body was read through volumes at %r; the options select %r"
                          % (" ".join(e["argv"]), e["selects"], e["origins"], [t for t in e["opts"] if t["k"] in ("drive", "dir")]), dict(event=e))
            continue
        chk.violation("context:%s" % "+".join(sorted({t["k"] for t in e["opts"]})),
                      "dfs %s type F / info *: read %r, listed %r (rc sum %s); the options select %r; stderr %r"
                      % (" ".join(e["argv"]), e["obs"], e["listed"], e["rc"], [t for t in e["opts"] if t["k"] in ("drive", "dir")], e["err"]), dict(event=e))
    chk.extra["context_sequences"] = len(events)


def replay(chk, path):
    run(chk, "quick", 1)
