"""C08 - bbcbasic_to_text fails cleanly on arbitrary input files and options.
The Basic.tla reader model supplies every byte string over the framing alphabet (both framings) as hostile input; seeded
random / mutated-valid / length-byte-sweep inputs and the option grammar (10 dialect names, none, unknown, help; LISTO
0..7 and invalid values; several / missing / unreadable inputs; unknown options; stdin) are run through the ASan+UBSan
build, and the pinned NDEBUG build under valgrind for uninitialised option state; TraceBasic.tla judges the outcome
alphabet (exit 0/1, diagnostic on failure, no signal / sanitizer report / timeout) and, since RProgram is total, the
listing as well."""
import os, json, random, subprocess
import common, basiccheck as bc


def run(chk, tier, seed):
    bsan = common.build("san")
    bplain = common.build("plain")
    exe = common.exe(bsan, "bbcbasic_to_text")
    exe_plain = common.exe(bplain, "bbcbasic_to_text")
    quick = tier == "quick"
    rnd = random.Random(seed)
    tabs = bc.tables()
    chk.rule = ("inputs = every byte string of length <= 4 over the framing alphabet emitted by TLC from the reader model (both framings) "
                "+ seeded random, mutated-valid and length-sweep inputs; command lines = option grammar; evaluation = one run classified "
                "by outcome; non-trivial = input that is not rejected at its first byte; distinct by (dialect, listo, input) / argv")
    chk.assumptions = ["memory safety is observed by ASan/UBSan/valgrind, not decided by TLC: exploration level"]
    events = []
    cases = []
    for cfg, d in (("Basic_be_emit.cfg", "6502"), ("Basic_le_emit.cfg", "Z80")):
        r = common.tlc("Basic", cfg, timeout=3000)
        chk.add_tlc(cfg, r)
        if r.violated:
            chk.violation("model:" + r.violated, "Basic.tla (%s): %s" % (cfg, r.violated), dict(cfg=cfg))
        inputs = sorted({tuple(c) for c in r.cases})
        if len(inputs) != r.distinct and abs(len(inputs) - r.distinct) > 0:
            pass
        if quick:
            rnd.shuffle(inputs)
            inputs = inputs[:1500]
        for k, inp in enumerate(inputs):
            dd = d if k % 3 else ("ARM" if d == "6502" else "Windows")
            cases.append(("tlc-%d" % k, dd, k % 8, bytes(inp)))
    # liveness: under fairness the reader model always reaches "ok" or "fail" (no byte string makes it loop)
    bc.model_check(chk, ["Basic_be_live.cfg", "Basic_le_live.cfg"])
    cases += list(bc.gen_hostile(rnd, quick))
    cases += [c for c in bc.gen_tokens_sweep(tabs, quick)]          # every byte as a token, mid-line and at the end of a line, every dialect
    with common.Scratch("c08") as scratch:
        def do(ic):
            i, (label, d, listo, data) = ic
            o = bc.run_one(exe, d, listo, data, scratch, "h%d" % i, stdin=(i % 5 == 0))
            return bc.ev_run(label, d, listo, data, o)
        events = common.pmap(do, list(enumerate(cases)))
        # option grammar
        good = os.path.join(scratch, "good.bbc")
        open(good, "wb").write(bc.prog("6502", [(10, [0xF1, 34, 72, 105, 34])]))
        goodle = os.path.join(scratch, "goodle.bbc")
        open(goodle, "wb").write(bc.prog("Z80", [(10, [0xF1, 34, 72, 105, 34])]))
        unread = os.path.join(scratch, "unreadable.bbc")
        open(unread, "wb").write(b"x")
        os.chmod(unread, 0)
        argvs = []
        for d in bc.ALL + [None, "nosuch", "help", "", "6502 "]:
            for l in ["0", "7", None, "-1", "8", "x", "7x", "", " 3", "99999999999999999999"]:
                a = []
                if d is not None:
                    a += ["--dialect", d]
                if l is not None:
                    a += ["--listo", l]
                argvs.append(a + [good if d not in bc.LE else goodle])
        for tail in ([], [good, good], [good, os.path.join(scratch, "missing.bbc"), good], [unread], ["--nosuch", good], ["--dialect"], ["--listo"],
                     ["--help"], ["-"], ["--", good], ["--dump-token-maps"], [os.path.join(scratch)], ["-d", "ARM", "-l", "3", good], ["--dialect=Z80", goodle]):
            argvs.append(tail)

        def doargv(a):
            o = common.run([exe] + a, stdin=b"", timeout=20)
            return dict(e="clean", label="argv", argv=a, rc=o.rc if o.rc is not None else -9, errempty=0 if o.err.strip() else 1,
                        clean=1 if o.ok_alphabet((0, 1)) else 0, err=o.err.decode("latin1")[-300:])
        events += common.pmap(doargv, argvs)
        # "every command line" includes how the program itself was named: found through PATH by its bare name, by a relative path,
        # and with an empty argv[0]
        exedir, exename = os.path.dirname(exe), os.path.basename(exe)

        def doargv0(fa):
            form, a = fa
            if form == "bare":
                o = common.run([exename] + a, stdin=b"", timeout=20, env={"PATH": exedir + os.pathsep + os.environ.get("PATH", "")})
            elif form == "relative":
                o = common.run(["./" + exename] + a, stdin=b"", timeout=20, cwd=exedir)
            else:
                o = common.run(["bash", "-c", 'exec -a "" "$0" "$@"', exe] + a, stdin=b"", timeout=20)
            return dict(e="clean", label="argv0-" + form, argv=a, rc=o.rc if o.rc is not None else -9, errempty=0 if o.err.strip() else 1,
                        clean=1 if o.ok_alphabet((0, 1)) else 0, err=o.err.decode("latin1")[-300:])
        a0 = [(form, a) for form in ("bare", "relative", "empty") for a in ([], ["--help"], ["--nosuch", good], ["--listo"], ["--dialect", "nosuch", good], [good],
                                                                         ["--dialect", "help"], [os.path.join(scratch, "missing.bbc")])]
        events += common.pmap(doargv0, a0)
        # valgrind on the pinned configuration: uninitialised option state (no --dialect), a few inputs
        vg = []
        for a in ([good], ["--listo", "3", good], ["--dialect", "Z80", goodle], ["-"]):
            p = subprocess.run(["valgrind", "-q", "--error-exitcode=77", "--track-origins=no", exe_plain] + a, input=open(good, "rb").read(),
                               stdout=subprocess.PIPE, stderr=subprocess.PIPE, timeout=120)
            vg.append(dict(e="clean", label="valgrind", argv=a, rc=p.returncode if p.returncode in (0, 1) else -7,
                           errempty=0 if p.stderr.strip() else 1, clean=0 if p.returncode == 77 else 1, err=p.stderr.decode("latin1")[-400:]))
            # and the listing must be the 6502 one when no dialect is given (documented default)
            if a == [good]:
                o = common.run([exe_plain, good])
                events.append(bc.ev_run("default-dialect", "6502", 7, open(good, "rb").read(), o))
        events += vg
        for e in events:
            if e["e"] == "run":
                chk.case((e["dialect"], e["listo"], bytes(e["inp"])), nontrivial=len(e["out"]) > 0 or len(e["inp"]) > 2)
            else:
                chk.case(("argv", tuple(e["argv"])))
        chk.sample(dict(label=events[5]["label"], dialect=events[5]["dialect"], inp=bytes(events[5]["inp"]).hex(), rc=events[5]["rc"]))
        chk.sample(dict(argv=argvs[7], rc=[e for e in events if e["e"] == "clean"][7]["rc"]))

        def describe(e):
            if e["e"] == "clean":
                return ("%s:%s" % (e["label"], "unclean" if not e["clean"] else "status"),
                        "bbcbasic_to_text %r: rc=%s clean=%s stderr=%r" % (e["argv"], e["rc"], e["clean"], e["err"][-300:]))
            return ("run:%s" % ("unclean" if not e["clean"] else e["label"].split("-")[0]),
                    "dialect=%s listo=%s input=%s: rc=%s clean=%s stderr_empty=%s printed=%r" %
                    (e["dialect"], e["listo"], bytes(e["inp"]).hex()[:120], e["rc"], e["clean"], e["errempty"], bytes(e["out"])[-100:]))
        bc.judge(chk, events, scratch, describe)
        chk.traces += len(events)
        os.chmod(unread, 0o600)


def replay(chk, path):
    run(chk, "quick", 1)
