"""C12 - dfs writes only where it was told to and never alters an image.
HostFs.tla: TLC checks the path construction of extract-files (with POSIX resolution of '/', '.', '..' over a host
tree with parent, sibling and sub-directory) against 'direct child of the destination' for every catalogue name /
directory character over a hostile alphabet; discs carrying those names are extracted in a sandbox tree whose
before/after snapshots (paths, types, hashes) are judged by TraceHostFs.tla; all other commands must create nothing."""
import os, json, hashlib, random, shutil
import common, mkdisc, discs


def snapshot(root):
    snap = {}
    for dp, dn, fn in os.walk(root):
        for n in dn + fn:
            p = os.path.join(dp, n)
            rel = os.path.relpath(p, root)
            if os.path.islink(p):
                snap[rel] = ("l", os.readlink(p))
            elif os.path.isdir(p):
                snap[rel] = ("d", "")
            else:
                with open(p, "rb") as f:
                    snap[rel] = ("f", hashlib.md5(f.read()).hexdigest())
    return snap


def sandbox(scratch, tag):
    root = os.path.join(scratch, tag)
    for d in ("r", "r/sib", "r/d", "r/d/sub", "r/cwd"):
        os.makedirs(os.path.join(root, d))
    # (files with names the hostile catalogue names can spell, in every directory around the destination: anything that removes or
    # rewrites what such a name resolves to shows up as a changed or vanished file)
    for f in ("r/keep.txt", "r/sib/keep.txt", "r/d/sub/keep.txt", "keep-root.txt", "r/a", "r/s", "r/-", "r/aa", "r/sib/a", "r/d/sub/a", "r/d/sub/s", "a", "s",
              "r/cwd/a", "r/cwd/s"):
        with open(os.path.join(root, f), "w") as fh:
            fh.write("keep " + f)
    return root


def run_in_sandbox(dfs, img_path, argv_tail, scratch, tag, extracting, dest_arg=None):
    root = sandbox(scratch, tag)
    local = os.path.join(root, "r", "cwd", os.path.basename(img_path))
    shutil.copy(img_path, local)
    before = snapshot(root)
    h0 = hashlib.md5(open(local, "rb").read()).hexdigest()
    argv = [dfs, "--file", local] + [a.replace("{DEST}", dest_arg or "") for a in argv_tail]
    o = common.run(argv, cwd=os.path.join(root, "r", "cwd"), timeout=60)
    after = snapshot(root)
    h1 = hashlib.md5(open(local, "rb").read()).hexdigest() if os.path.exists(local) else "gone"
    created = [k.split(os.sep) for k in sorted(after) if k not in before]
    changed = [k for k in sorted(before) if after.get(k) != before[k]]
    shutil.rmtree(root, ignore_errors=True)
    return dict(e="run", extracting=1 if extracting else 0, created=created, changed=changed, image_same=1 if h0 == h1 else 0,
                clean=1 if o.ok_alphabet() else 0, rc=o.rc if o.rc is not None else -9, cmd=argv_tail[:3],
                err=o.err.decode("latin1")[:200])


def run(chk, tier, seed):
    bdir = common.build("san")
    dfs = common.exe(bdir, "dfs")
    rnd = random.Random(seed)
    quick = tier == "quick"
    chk.rule = ("names = every catalogue name of length <= MaxName over {a / . - blank 0x01 s} x directory character {$ / .} (TLC); packed "
                "31 per disc and extracted with destination given relatively/absolutely, with/without trailing slash; every other command "
                "run in the same sandbox; evaluation = one command run with before/after snapshot; non-trivial = run on a disc with >= 1 "
                "hostile name; distinct by (names on disc, command, destination form)")
    chk.assumptions = ["host tree = parent, sibling, destination, sub-directory, cwd; no symlinks",
                       "a run that creates nothing and fails is acceptable"]
    cfg = "HostFs_small.cfg" if quick else "HostFs_thorough.cfg"
    r = common.tlc("HostFs", cfg)
    chk.add_tlc(cfg, r)
    if r.violated:
        chk.violation("model:" + r.violated, "HostFs.tla: path construction violates %s\n%s" % (r.violated, "\n".join(r.cex[:30])), dict(spec="HostFs.tla"))
    cases = sorted({json.dumps(c, sort_keys=True): c for c in r.cases}.values(), key=lambda c: json.dumps(c, sort_keys=True))
    # one entry per distinct (dirc, name); pack 31 per disc
    names = sorted({(c["dirc"], tuple(c["name"])) for c in cases})
    rnd.shuffle(names)
    if quick:
        # keep all names containing '/' or '.', sample the rest
        hot = [n for n in names if 47 in n[1] or 46 in n[1] or n[0] in (47, 46)]
        names = hot[:1800] + [n for n in names if n not in set(hot)][:200]
    chk.exhaustive = not quick
    # names without '/' are packed together so that their discs are extracted completely (a name with '/' stops the run)
    names.sort(key=lambda n: (47 in n[1] or n[0] == 47))
    discs_ = []
    cur, seen = [], set()
    for dirc, nm in names:
        eff = bytes(nm).split(b" ")[0]
        key = (chr(dirc).lower(), eff.lower())
        if not eff or key in seen:
            continue
        seen.add(key)
        cur.append((dirc, nm))
        if len(cur) == 31:
            discs_.append(cur)
            cur, seen = [], set()
    if cur:
        discs_.append(cur)
    # entries that would escape under unchecked concatenation, placed at the first, a middle and the last catalogue position
    esc = sorted({(c["dirc"], tuple(c["name"])) for c in cases if c["escapes"]})
    rnd.shuffle(esc)
    fillers = [(36, (102, 48 + i)) for i in range(4)]         # $.f0 .. $.f3
    for k, e in enumerate(esc[: (60 if quick else 100000)]):
        for posn in (0, 2, 4):
            g = list(fillers)
            g.insert(posn, e)
            discs_.append(g)
    chk.extra["escaping_names"] = len(esc)
    with common.Scratch("c12") as scratch:
        imgs = []
        for i, group in enumerate(discs_):
            ents = [mkdisc.entry(bytes(nm), dirc, False, 0, 0, 5, 40 - j) for j, (dirc, nm) in enumerate(group)]
            d = discs.build("DFS", ents, scratch, "h%d" % i, nsectors=400, salt=9, title=b"HOSTILE")
            imgs.append((d.path, group))
        dest_forms = [("../d", True), ("../d/", True), ("{ABS}", True)]

        def do(ij):
            i, (path, group) = ij
            evs = []
            for k, (dest, _) in enumerate(dest_forms if not quick or i % 4 == 0 else dest_forms[i % 3:i % 3 + 1]):
                tag = "s%d_%d" % (i, k)
                darg = dest if dest != "{ABS}" else os.path.join(scratch, tag, "r", "d")
                for cmdv in (["extract-files", "{DEST}"], ["--dir", ".", "extract-files", "{DEST}"], ["extract-unused", "{DEST}"]):
                    e = run_in_sandbox(dfs, path, cmdv, scratch, tag + cmdv[0][:3] + str(len(cmdv)), True, darg)
                    e["disc"] = i
                    evs.append(e)
            if i % 8 == 0:
                for cmdv in (["cat"], ["info", "#.*"], ["free"], ["space"], ["sector-map"], ["show-titles"], ["help"],
                             ["type", "$.a"], ["dump", "$.a"], ["list", "$.a"], ["dump-sector", "0", "0", "0"], ["--show-config", "--verbose", "cat"]):
                    e = run_in_sandbox(dfs, path, cmdv, scratch, "o%d" % i + cmdv[0][:4], False)
                    e["disc"] = i
                    evs.append(e)
            return evs
        res = common.pmap(do, list(enumerate(imgs)))
        events = [e for evs in res for e in evs]
        # destinations that are unusual as names: one ending in a blank (with the blank-less sibling present), and one whose path is
        # longer than a file name may be (three nested 100-character directories): both commands, with and without trailing slash
        def do_dest(ij):
            i, (kindd, trailing, cmdname) = ij
            root = sandbox(scratch, "dd%d" % i)
            if kindd == "blank":
                comps = ["r", "d "]
                os.makedirs(os.path.join(root, *comps))
            else:
                # the 256th character of the path falls in the middle of the last directory's name
                base = len(os.path.join(root, "r", "d")) + 1
                fill = max(1, 200 - base)
                comps = ["r", "d"] + (["p" * min(fill, 200)] if fill <= 200 else ["p" * 200, "s" * (fill - 201)]) + ["q" * 100]
                os.makedirs(os.path.join(root, *comps))
            src = imgs[0][0] if kindd == "blank" else imgs[min(3, len(imgs) - 1)][0]
            local = os.path.join(root, "r", "cwd", os.path.basename(src))
            shutil.copy(src, local)
            before = snapshot(root)
            darg = os.path.join(root, *comps) + ("/" if trailing else "")
            o = common.run([dfs, "--file", local, cmdname, darg], cwd=os.path.join(root, "r", "cwd"), timeout=60)
            after = snapshot(root)
            created = [k.split(os.sep) for k in sorted(after) if k not in before]
            changed = [k for k in sorted(before) if after.get(k) != before[k]]
            shutil.rmtree(root, ignore_errors=True)
            return dict(e="run", extracting=1, created=created, changed=changed, image_same=1, clean=1 if o.ok_alphabet() else 0, rc=o.rc if o.rc is not None else -9,
                        cmd=[cmdname, kindd + ("/" if trailing else "")], err=o.err.decode("latin1")[:200], disc=0, dest=comps)
        djobs = [(k_, t_, c_) for k_ in ("blank", "long") for t_ in (False, True) for c_ in ("extract-files", "extract-unused")]
        events += common.pmap(do_dest, list(enumerate(djobs)))
        for e in events:
            chk.case((e["disc"], tuple(e["cmd"]), e["extracting"]), nontrivial=True)
        chk.sample(dict(names=[(d, bytes(n).decode("latin1")) for d, n in imgs[0][1][:6]], event=events[0]))
        trace = os.path.join(scratch, "trace.ndjson")
        with open(trace, "w") as f:
            for e in events:
                f.write(json.dumps(e) + "\n")
        ok, tr = common.validate_trace("TraceHostFs", "TraceHostFs.cfg", trace, timeout=1200)
        chk.add_tlc("TraceHostFs", tr)
        chk.traces += len(events)
        if not ok or not tr.verdicts:
            raise common.MachineryError("TraceHostFs did not consume the whole trace:\n" + tr.output[-3000:])
        for ln in sorted(tr.verdicts[-1]["bad"]):
            e = events[ln - 1]
            dst = e.get("dest", ["r", "d"])
            outside = [c for c in e["created"] if not (len(c) == len(dst) + 1 and c[:len(dst)] == dst)]
            kind = "escape" if outside and e["extracting"] else ("unclean" if not e["clean"] else ("image-changed" if not e["image_same"] else "creates"))
            chk.violation("%s:%s" % (e["cmd"][0] if e["cmd"][0] != "--dir" else "extract-files", kind),
                          "`%s` on disc %d: created outside the destination %r; changed %r; image_same=%s clean=%s rc=%s err=%r; names on disc: %r"
                          % (" ".join(e["cmd"]), e["disc"], outside[:4], e["changed"][:3], e["image_same"], e["clean"], e["rc"], e["err"][:100],
                             [(chr(d), bytes(n)) for d, n in imgs[e["disc"]][1]][:8]),
                          dict(event=e, names=[(d, list(n)) for d, n in imgs[e["disc"]][1]]))
        chk.extra["discs"] = len(imgs)
        extract_runs(chk, dfs, cases, scratch, quick, rnd)
        tmp_leftovers(chk, dfs, scratch, quick)


def tmp_leftovers(chk, dfs, scratch, quick):
    """Files a command leaves in the system's temporary directory are files it created: every command on plain, gzip-compressed and
    damaged gzip images is run in a private mount namespace with an empty tmpfs on /tmp (and with TMPDIR pointing into it or unset);
    whatever is in there afterwards was left behind."""
    import subprocess, gzip
    probe = subprocess.run(["unshare", "-m", "sh", "-c", "mount -t tmpfs tmpfs /tmp && ls -A /tmp"], stdout=subprocess.PIPE, stderr=subprocess.PIPE)
    if probe.returncode != 0:
        chk.extra["tmp_namespace"] = "unavailable: " + probe.stderr.decode("latin1")[:100]
        return
    d = discs.build("DFS", [mkdisc.entry("A", length=700, start=20), mkdisc.entry("B", length=10, start=5)], scratch, "tmpl", nsectors=400, salt=12, title=b"TMPL")
    raw = open(d.path, "rb").read()
    good = gzip.compress(raw, 6)
    variants = {"plain.ssd": raw, "good.ssd.gz": good, "cut.ssd.gz": good[: len(good) // 2], "cut-header.ssd.gz": good[:5],
                "flip.ssd.gz": good[:200] + bytes([good[200] ^ 0x10]) + good[201:], "crc.ssd.gz": good[:-8] + bytes([good[-8] ^ 1]) + good[-7:],
                "notgz.ssd.gz": raw, "empty.ssd.gz": b""}
    paths = {k: mkdisc.write(os.path.join(scratch, "tl-" + k), v) for k, v in variants.items()}
    # image arguments that cannot be read at all: a name with no file behind it, and a directory (each with and without .gz)
    for k in ("missing.ssd.gz", "missing.ssd", "dir.ssd.gz", "dir.ssd"):
        paths[k] = os.path.join(scratch, "tl-" + k)
        if k.startswith("dir"):
            os.makedirs(paths[k], exist_ok=True)
    dest = os.path.join(scratch, "tl-dest")
    os.makedirs(dest, exist_ok=True)
    jobs = []
    for k, p_ in paths.items():
        for cmd in (["cat"], ["info", "#.*"], ["type", "A"], ["free"], ["dump", "B"], ["sector-map"], ["show-titles"], ["extract-files", dest], ["extract-unused", dest]):
            for tmpdir in ((None, "/tmp/sub") if not quick or cmd[0] in ("cat", "type") else (None,)):
                jobs.append((k, p_, cmd, tmpdir, False))
            if cmd[0] in ("cat", "type", "dump", "sector-map") and k in ("plain.ssd", "good.ssd.gz"):
                jobs.append((k, p_, cmd, None, True))         # the reader of standard output goes away at once (dfs ... | true)

    def do(ij):
        i, (k, p_, cmd, tmpdir, closed) = ij
        listing = os.path.join(scratch, "tl-%d.lst" % i)
        script = ("mount -t tmpfs tmpfs /tmp || exit 97; mkdir -p /tmp/sub; " + ("export TMPDIR=%s; " % tmpdir if tmpdir else "unset TMPDIR; ") +
                  ('"$@" 2>/dev/null | true; rc=0; sleep 0.2; ' if closed else '"$@" >/dev/null 2>&1; rc=$?; ') +
                  '(cd /tmp && find . -mindepth 1 ! -path ./sub) > %s; exit $rc' % listing)
        pr = subprocess.run(["unshare", "-m", "sh", "-c", script, "sh", dfs, "--file", p_] + cmd, stdout=subprocess.PIPE, stderr=subprocess.PIPE, timeout=120)
        left = [x for x in open(listing).read().split("\n") if x] if os.path.exists(listing) else ["(no listing)"]
        return dict(e="run", extracting=0, created=[["<tmp>", x] for x in left], changed=[], image_same=1, clean=1, rc=pr.returncode, cmd=cmd[:2],
                    err="", disc=-1, variant=k, tmpdir=(tmpdir or "") + (" stdout closed" if closed else ""))
    events = common.pmap(do, list(enumerate(jobs)))
    if any(e["rc"] == 97 for e in events):
        # the probe worked but a later mount did not (resource limits): this phase cannot observe anything then; say so, do not guess
        chk.extra["tmp_namespace"] = "private tmpfs could not be mounted for %d of %d runs; phase skipped" % (sum(1 for e in events if e["rc"] == 97), len(events))
        return
    for e in events:
        chk.case(("tmp", e["variant"], tuple(e["cmd"]), e["tmpdir"]), nontrivial=True)
    trace = os.path.join(scratch, "tl-trace.ndjson")
    with open(trace, "w") as f:
        for e in events:
            f.write(json.dumps(e) + "\n")
    ok, tr = common.validate_trace("TraceHostFs", "TraceHostFs.cfg", trace, timeout=1200)
    chk.add_tlc("TraceHostFs(tmp)", tr)
    chk.traces += len(events)
    if not ok or not tr.verdicts:
        raise common.MachineryError("TraceHostFs did not consume the whole trace:\n" + tr.output[-3000:])
    for ln in sorted(tr.verdicts[-1]["bad"]):
        e = events[ln - 1]
        chk.violation("tmp-leftover:%s" % ("gz-damaged" if e["variant"] not in ("plain.ssd", "good.ssd.gz") else e["variant"]),
                      "`dfs --file %s %s` (TMPDIR=%s) left %r in the temporary directory (rc=%s)" % (e["variant"], " ".join(e["cmd"]), e["tmpdir"] or "unset",
                                                                                                [c[1] for c in e["created"]], e["rc"]), dict(event=e))
    chk.extra["tmp_runs"] = len(events)


def extract_runs(chk, dfs, cases, scratch, quick, rnd):
    """Extract.tla: whole runs over catalogues (one fragment: Acorn and an Opus volume; two: Watford) whose entries are
    drawn from HostFs.tla's name classes, at every position TLC enumerates."""
    import posixpath
    r = common.tlc("Extract", "Extract.cfg")
    chk.add_tlc("Extract.cfg", r)
    if r.violated:
        chk.violation("model:" + r.violated, "Extract.tla: the extraction loop violates %s\n%s" % (r.violated, "\n".join(r.cex[:30])), dict(spec="Extract.tla"))
    cats = sorted({json.dumps(c["cat"]): c["cat"] for c in r.cases}.values(), key=json.dumps)
    def base(c):
        eff = bytes(c["name"]).split(b" ")[0]
        return (eff if c["dirc"] == 36 else bytes([c["dirc"], 46]) + eff)
    outs, nils = {}, {}
    for c in cases:
        b = base(c)
        if c["escapes"]:
            land = posixpath.normpath("r/d/" + b.decode("latin1"))
            outs.setdefault(land, (c["dirc"], tuple(c["name"])))
        elif b"/" in b and 1 not in b:
            nils.setdefault(b, (c["dirc"], tuple(c["name"])))
    outs = sorted(outs.items())
    nils = sorted(nils.items())
    rnd.shuffle(outs)
    rnd.shuffle(nils)
    if quick:
        cats = [c for c in cats if any(x == "out" for fr in c for x in fr)]
    jobs = []
    for ci, cat in enumerate(cats):
        for variant in (["DFS", "OPUS"] if len(cat) == 1 else ["WDFS"]):
            if variant == "OPUS" and (ci % 3 or not cat[0]):
                continue
            jobs.append((ci, cat, variant))

    def do(job):
        ci, cat, variant = job
        ents, plan = [], []
        n_in = n_out = n_nil = 0
        for fi, fr in enumerate(cat):
            for ei, cls in enumerate(fr):
                if cls == "in":
                    dirc, nm, land = 36, tuple(b"g%d" % n_in), "r/d/g%d" % n_in
                    n_in += 1
                elif cls == "out":
                    land, (dirc, nm) = outs[(ci * 7 + n_out) % len(outs)]
                    n_out += 1
                else:
                    b, (dirc, nm) = nils[(ci * 5 + n_nil) % len(nils)]
                    land = None
                    n_nil += 1
                ents.append(mkdisc.entry(bytes(nm), dirc, False, 0, 0, 5, 60 - len(ents)))
                plan.append((fi + 1, ei + 1, cls, land))
        lands = [p[3] for p in plan if p[3]]
        if len(set(lands)) != len(lands):
            return None
        tag = "e%d%s" % (ci, variant)
        if variant == "WDFS":
            d = discs.build("WDFS", ents, scratch, tag, nsectors=400, salt=9, title=b"EXTRACT", split=len(cat[0]))
        elif variant == "OPUS":
            d = discs.build("OPUS", ents, scratch, tag, salt=9, title=b"EXTRACT")
        else:
            d = discs.build("DFS", ents, scratch, tag, nsectors=400, salt=9, title=b"EXTRACT")
        evs = []
        for dest in (["../d", "../d/"] if not quick else ["../d/" if ci % 2 else "../d"]):
            e = run_in_sandbox(dfs, d.path, ["--drive", d.drive, "extract-files", "{DEST}"], scratch, tag + str(len(dest)), True, dest)
            created = {"/".join(c) for c in e["created"]}
            made, accounted = [], set()
            for fi, ei, cls, land in plan:
                if land and land in created:
                    made.append(dict(f=fi, i=ei))
                if land:
                    accounted |= {land, land + ".inf"}
            e.update(e="extract", cat=cat, made=made, stray=len(created - accounted), variant=variant, disc=ci,
                     names=[[dirc_nm["dir"], list(dirc_nm["name"])] for dirc_nm in ents])
            evs.append(e)
        return evs
    res = [x for x in common.pmap(do, jobs) if x]
    events = [e for evs in res for e in evs]
    if not events:
        raise common.MachineryError("no extract runs")
    for e in events:
        chk.case(("extract-run", json.dumps(e["cat"]), e["variant"], e["cmd"][-1]), nontrivial=any(x != "in" for fr in e["cat"] for x in fr))
    chk.sample(events[len(events) // 2])
    trace = os.path.join(scratch, "xtrace.ndjson")
    with open(trace, "w") as fh:
        for e in events:
            fh.write(json.dumps(common.no_nulls(e)) + "\n")
    ok, tr = common.validate_trace("TraceExtract", "TraceExtract.cfg", trace, timeout=1200)
    chk.add_tlc("TraceExtract", tr)
    chk.traces += len(events)
    if not ok or not tr.verdicts:
        raise common.MachineryError("TraceExtract did not consume the whole trace:\n" + tr.output[-3000:])
    v = tr.verdicts[-1]
    for ln in sorted(v["bad"]):
        e = events[ln - 1]
        where = sorted({"frag%d" % m["f"] for m in e["made"] if e["cat"][m["f"] - 1][m["i"] - 1] == "out"}) or ["stray"]
        chk.violation("extract-files:escape:%s:%s" % (e["variant"], "+".join(where)),
                      "extract-files over a %s catalogue %r: created %r (outside the destination or unaccounted), rc=%s err=%r"
                      % (e["variant"], e["cat"], e["created"][:6], e["rc"], e["err"][:100]), dict(event=e))
    chk.extra["extract_runs"] = len(events)
    chk.extra["extract_runs_success_but_incomplete"] = len(v.get("incomplete", []))


def replay(chk, path):
    run(chk, "quick", 1)
