"""C12 - dfs writes only where it was told to and never alters an image.
HostFs.tla: TLC checks the path construction of extract-files (with POSIX resolution of '/', '.', '..' over a host
tree with parent, sibling and sub-directory) against 'direct child of the destination' for every catalogue name /
directory character over a hostile alphabet; discs carrying those names are extracted in a sandbox tree whose
before/after snapshots (paths, types, hashes) are judged by TraceHostFs.tla; all other commands must create nothing."""
import os, json, hashlib, random, shutil
import common, mkdisc, discs


def snapshot(root):
    snap = {}
    for dp, dn, fn in os.walk(root):
        for n in dn + fn:
            p = os.path.join(dp, n)
            rel = os.path.relpath(p, root)
            if os.path.islink(p):
                snap[rel] = ("l", os.readlink(p))
            elif os.path.isdir(p):
                snap[rel] = ("d", "")
            else:
                with open(p, "rb") as f:
                    snap[rel] = ("f", hashlib.md5(f.read()).hexdigest())
    return snap


def sandbox(scratch, tag):
    root = os.path.join(scratch, tag)
    for d in ("r", "r/sib", "r/d", "r/d/sub", "r/cwd"):
        os.makedirs(os.path.join(root, d))
    for f in ("r/keep.txt", "r/sib/keep.txt", "r/d/sub/keep.txt", "keep-root.txt"):
        with open(os.path.join(root, f), "w") as fh:
            fh.write("keep " + f)
    return root


def run_in_sandbox(dfs, img_path, argv_tail, scratch, tag, extracting, dest_arg=None):
    root = sandbox(scratch, tag)
    local = os.path.join(root, "r", "cwd", os.path.basename(img_path))
    shutil.copy(img_path, local)
    before = snapshot(root)
    h0 = hashlib.md5(open(local, "rb").read()).hexdigest()
    argv = [dfs, "--file", local] + [a.replace("{DEST}", dest_arg or "") for a in argv_tail]
    o = common.run(argv, cwd=os.path.join(root, "r", "cwd"), timeout=60)
    after = snapshot(root)
    h1 = hashlib.md5(open(local, "rb").read()).hexdigest() if os.path.exists(local) else "gone"
    created = [k.split(os.sep) for k in sorted(after) if k not in before]
    changed = [k for k in sorted(before) if after.get(k) != before[k]]
    shutil.rmtree(root, ignore_errors=True)
    return dict(e="run", extracting=1 if extracting else 0, created=created, changed=changed, image_same=1 if h0 == h1 else 0,
                clean=1 if o.ok_alphabet() else 0, rc=o.rc if o.rc is not None else -9, cmd=argv_tail[:3],
                err=o.err.decode("latin1")[:200])


def run(chk, tier, seed):
    bdir = common.build("san")
    dfs = common.exe(bdir, "dfs")
    rnd = random.Random(seed)
    quick = tier == "quick"
    chk.rule = ("names = every catalogue name of length <= MaxName over {a / . - blank 0x01 s} x directory character {$ / .} (TLC); packed "
                "31 per disc and extracted with destination given relatively/absolutely, with/without trailing slash; every other command "
                "run in the same sandbox; evaluation = one command run with before/after snapshot; non-trivial = run on a disc with >= 1 "
                "hostile name; distinct by (names on disc, command, destination form)")
    chk.assumptions = ["host tree = parent, sibling, destination, sub-directory, cwd; no symlinks",
                       "a run that creates nothing and fails is acceptable"]
    cfg = "HostFs_small.cfg" if quick else "HostFs_thorough.cfg"
    r = common.tlc("HostFs", cfg)
    chk.add_tlc(cfg, r)
    if r.violated:
        chk.violation("model:" + r.violated, "HostFs.tla: path construction violates %s\n%s" % (r.violated, "\n".join(r.cex[:30])), dict(spec="HostFs.tla"))
    cases = sorted({json.dumps(c, sort_keys=True): c for c in r.cases}.values(), key=lambda c: json.dumps(c, sort_keys=True))
    # one entry per distinct (dirc, name); pack 31 per disc
    names = sorted({(c["dirc"], tuple(c["name"])) for c in cases})
    rnd.shuffle(names)
    if quick:
        # keep all names containing '/' or '.', sample the rest
        hot = [n for n in names if 47 in n[1] or 46 in n[1] or n[0] in (47, 46)]
        names = hot[:1800] + [n for n in names if n not in set(hot)][:200]
    chk.exhaustive = not quick
    # names without '/' are packed together so that their discs are extracted completely (a name with '/' stops the run)
    names.sort(key=lambda n: (47 in n[1] or n[0] == 47))
    discs_ = []
    cur, seen = [], set()
    for dirc, nm in names:
        eff = bytes(nm).split(b" ")[0]
        key = (chr(dirc).lower(), eff.lower())
        if not eff or key in seen:
            continue
        seen.add(key)
        cur.append((dirc, nm))
        if len(cur) == 31:
            discs_.append(cur)
            cur, seen = [], set()
    if cur:
        discs_.append(cur)
    # entries that would escape under unchecked concatenation, placed at the first, a middle and the last catalogue position
    esc = sorted({(c["dirc"], tuple(c["name"])) for c in cases if c["escapes"]})
    rnd.shuffle(esc)
    fillers = [(36, (102, 48 + i)) for i in range(4)]         # $.f0 .. $.f3
    for k, e in enumerate(esc[: (60 if quick else 100000)]):
        for posn in (0, 2, 4):
            g = list(fillers)
            g.insert(posn, e)
            discs_.append(g)
    chk.extra["escaping_names"] = len(esc)
    with common.Scratch("c12") as scratch:
        imgs = []
        for i, group in enumerate(discs_):
            ents = [mkdisc.entry(bytes(nm), dirc, False, 0, 0, 5, 40 - j) for j, (dirc, nm) in enumerate(group)]
            d = discs.build("DFS", ents, scratch, "h%d" % i, nsectors=400, salt=9, title=b"HOSTILE")
            imgs.append((d.path, group))
        dest_forms = [("../d", True), ("../d/", True), ("{ABS}", True)]

        def do(ij):
            i, (path, group) = ij
            evs = []
            for k, (dest, _) in enumerate(dest_forms if not quick or i % 4 == 0 else dest_forms[i % 3:i % 3 + 1]):
                tag = "s%d_%d" % (i, k)
                darg = dest if dest != "{ABS}" else os.path.join(scratch, tag, "r", "d")
                for cmdv in (["extract-files", "{DEST}"], ["--dir", ".", "extract-files", "{DEST}"], ["extract-unused", "{DEST}"]):
                    e = run_in_sandbox(dfs, path, cmdv, scratch, tag + cmdv[0][:3] + str(len(cmdv)), True, darg)
                    e["disc"] = i
                    evs.append(e)
            if i % 8 == 0:
                for cmdv in (["cat"], ["info", "#.*"], ["free"], ["space"], ["sector-map"], ["show-titles"], ["help"],
                             ["type", "$.a"], ["dump", "$.a"], ["list", "$.a"], ["dump-sector", "0", "0", "0"], ["--show-config", "--verbose", "cat"]):
                    e = run_in_sandbox(dfs, path, cmdv, scratch, "o%d" % i + cmdv[0][:4], False)
                    e["disc"] = i
                    evs.append(e)
            return evs
        res = common.pmap(do, list(enumerate(imgs)))
        events = [e for evs in res for e in evs]
        for e in events:
            chk.case((e["disc"], tuple(e["cmd"]), e["extracting"]), nontrivial=True)
        chk.sample(dict(names=[(d, bytes(n).decode("latin1")) for d, n in imgs[0][1][:6]], event=events[0]))
        trace = os.path.join(scratch, "trace.ndjson")
        with open(trace, "w") as f:
            for e in events:
                f.write(json.dumps(e) + "\n")
        ok, tr = common.validate_trace("TraceHostFs", "TraceHostFs.cfg", trace, timeout=1200)
        chk.add_tlc("TraceHostFs", tr)
        chk.traces += len(events)
        if not ok or not tr.verdicts:
            raise common.MachineryError("TraceHostFs did not consume the whole trace:\n" + tr.output[-3000:])
        for ln in sorted(tr.verdicts[-1]["bad"]):
            e = events[ln - 1]
            outside = [c for c in e["created"] if not (len(c) == 3 and c[:2] == ["r", "d"])]
            kind = "escape" if outside and e["extracting"] else ("unclean" if not e["clean"] else ("image-changed" if not e["image_same"] else "creates"))
            chk.violation("%s:%s" % (e["cmd"][0] if e["cmd"][0] != "--dir" else "extract-files", kind),
                          "`%s` on disc %d: created outside the destination %r; changed %r; image_same=%s clean=%s rc=%s err=%r; names on disc: %r"
                          % (" ".join(e["cmd"]), e["disc"], outside[:4], e["changed"][:3], e["image_same"], e["clean"], e["rc"], e["err"][:100],
                             [(chr(d), bytes(n)) for d, n in imgs[e["disc"]][1]][:8]),
                          dict(event=e, names=[(d, list(n)) for d, n in imgs[e["disc"]][1]]))
        chk.extra["discs"] = len(imgs)


def replay(chk, path):
    run(chk, "quick", 1)
