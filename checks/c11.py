"""C11 - exit status 0 implies the output was completely written.
OutStream.tla: TLC checks, for every chunking of the output, buffer capacity and byte offset at which the device starts
refusing writes, that the 'flush, then test, then report' profile (main() of dfs as repaired; bbcbasic_to_text) never
exits 0 with unaccepted output (and shows the older profiles do).  Every command of both tools is run with standard
output redirected to a file under RLIMIT_FSIZE = k for k at 0, 1, the stdio buffer boundaries, L-1 and L, to /dev/full
and to a closed pipe; extract-files / extract-unused with the limit applying to each created file.  TraceOutStream.tla
judges each observation (bytes accepted, exit status, diagnostic) with the requirement operator."""
import os, json, random, signal, subprocess, resource, shutil
import common, mkdisc, discs
import basiccheck as bc


def run_limited(argv, k, scratch, tag, mode="file", cwd=None, timeout=60):
    """mode: file (RLIMIT_FSIZE=k on stdout file), full (/dev/full), pipe (closed read end)."""
    outp = os.path.join(scratch, tag + ".out")
    env = dict(os.environ)
    env.update(common.SAN_ENV)

    def pre():
        signal.signal(signal.SIGXFSZ, signal.SIG_IGN)
        signal.signal(signal.SIGPIPE, signal.SIG_IGN)
        if k is not None:
            resource.setrlimit(resource.RLIMIT_FSIZE, (k, k))
        resource.setrlimit(resource.RLIMIT_CORE, (0, 0))
        if mode == "pipe":
            # made here, in the single-threaded child: a pipe made in the (multi-threaded) parent can have its read end held open for
            # a moment by another thread's fork, and a write that lands in that moment succeeds
            r, w = os.pipe()
            os.close(r)
            os.dup2(w, 1)
            os.close(w)
    if mode == "file":
        fo = open(outp, "wb")
    elif mode == "full":
        fo = open("/dev/full", "wb")
    else:
        fo = open(os.devnull, "wb")
    try:
        p = subprocess.run(argv, stdout=fo, stderr=subprocess.PIPE, stdin=subprocess.DEVNULL, env=env, preexec_fn=pre, cwd=cwd, timeout=timeout)
        rc, err = p.returncode, p.stderr
    except subprocess.TimeoutExpired as ex:
        rc, err = -99, ex.stderr or b""
    finally:
        try:
            fo.close()
        except OSError:
            pass
    acc = os.path.getsize(outp) if mode == "file" else 0
    if mode == "file":
        os.unlink(outp)
    return rc, err, acc


def run(chk, tier, seed):
    bdir = common.build("ndebug")
    dfs = common.exe(bdir, "dfs")
    bas = common.exe(bdir, "bbcbasic_to_text")
    quick = tier == "quick"
    chk.rule = ("for every command of dfs and for bbcbasic_to_text: output length L measured, then stdout limited to k bytes for k in "
                "{0, 1, 4095, 4096, 4097, 8191, 8192, L/2, L-1, L} (thorough: every k <= L for outputs under 600 bytes and every 97th "
                "otherwise), /dev/full and a closed pipe; extract-files / extract-unused with the limit on each created file; "
                "evaluation = one limited run; non-trivial = k < L; distinct by (command, k, mode)")
    chk.assumptions = ["RLIMIT_FSIZE with SIGXFSZ ignored makes write() fail with EFBIG at the limit, like a full device",
                       "images are uncompressed so the limit does not hit a decompression temporary file"]
    for cfg, expect_hold in (("OutStream_fixed.cfg", True), ("OutStream_old.cfg", False), ("OutStream_cold.cfg", False)):
        r = common.tlc("OutStream", cfg)
        chk.add_tlc(cfg, r)
        if expect_hold and r.violated:
            chk.violation("model:" + r.violated, "OutStream.tla: the flush+test profile violates %s\n%s" % (r.violated, "\n".join(r.cex[-30:])), dict(spec="OutStream.tla"))
        if not expect_hold:
            chk.extra["old_profiles_model:" + cfg] = r.violated or "holds"
            if not r.violated:
                raise common.MachineryError("vacuous: the unchecked profiles should violate ExitZeroImpliesComplete in the model")
    events = []
    with common.Scratch("c11") as scratch:
        ents = [mkdisc.entry("F%02d" % i, "$" if i % 3 else "T", i % 2 == 0, 0x1900, 0x8023, 300 + 17 * i, 700 - 5 * i) for i in range(31)]
        ents[0] = mkdisc.entry("BIG", length=12000, start=710)
        text = (b"LINE OF TEXT NUMBER %d\r" * 1)
        def bw(img, origin):
            body = b"".join(b"LINE OF TEXT NUMBER %d\r" % i for i in range(600))[:12000]
            mkdisc.put(img, origin + 710, body.ljust(12032, b"\r"))
        d = discs.build("DFS", ents, scratch, "out", nsectors=800, salt=13, title=b"OUTPUT", body_writer=bw)
        ents_small = [mkdisc.entry("S%02d" % i, "$", False, 0, 0, 300 + 17 * i, 700 - 5 * i) for i in range(20)]
        d_small = discs.build("DFS", ents_small, scratch, "small", nsectors=800, salt=14, title=b"SMALL")
        # tiny and empty files: the per-file limit can be above every body and still below the size of the .inf files
        ents_tiny = [mkdisc.entry("T%02d" % i, "$", i % 2 == 0, 0x31900, 0x8023, [0, 5, 10][i % 3], 600 - 2 * i) for i in range(9)]
        d_tiny = discs.build("DFS", ents_tiny, scratch, "tiny", nsectors=800, salt=15, title=b"TINY")
        prog = os.path.join(scratch, "p.bbc")
        open(prog, "wb").write(bc.prog("6502", [(10 * i, [0xF1, 34] + [65 + (i % 26)] * 30 + [34]) for i in range(1, 200)]))
        cmds = [("dfs", [dfs, "--file", d.path] + c) for c in (["cat"], ["info", "#.*"], ["free"], ["space"], ["sector-map"], ["type", "BIG"],
                                                             ["type", "--binary", "BIG"], ["list", "BIG"], ["dump", "BIG"], ["dump-sector", "0", "1", "1"],
                                                             ["show-titles"], ["help"], ["help", "cat"], ["--help"], ["--ui", "watford", "cat"])]
        cmds.append(("basic", [bas, prog]))
        # several input files: a failure while listing one must survive the listing of the next (OutStream.tla: bounds)
        empty = os.path.join(scratch, "empty.bbc")
        open(empty, "wb").write(bc.prog("6502", []))
        cmds.append(("basic", [bas, prog, empty]))
        cmds.append(("basic", [bas, empty, prog, empty, empty]))
        cmds.append(("basic", [bas, prog, prog]))
        # the paths that print a warning and carry on (anything done to stdout there must not lose a failure): bytes after the
        # little-endian end marker, a big-endian line number with 0xFF as its high byte
        progle = os.path.join(scratch, "trail.bbc")
        open(progle, "wb").write(bc.prog("Z80", [(10 * i, [0xF1, 34] + [65 + (i % 26)] * 30 + [34]) for i in range(1, 60)]) + b"\x0d\x0d\x1a")
        progff = os.path.join(scratch, "ffline.bbc")
        open(progff, "wb").write(bc.prog("6502", [(10, [0xF1, 34, 65, 34]), (0xFF10, [0xF1, 34, 66, 34]), (0xFF20, [0xF1, 34, 67, 34])]))
        cmds.append(("basic", [bas, "--dialect", "Z80", progle]))
        cmds.append(("basic", [bas, "--dialect", "Z80", progle, progle]))
        cmds.append(("basic", [bas, progff]))
        cmds.append(("basic", [bas, "--help"]))
        cmds.append(("basic", [bas, "--dialect", "help", prog]))
        # OutStream_cold.cfg's counterexample: an untested write is the one that overflows the buffer and nothing is buffered after it.
        # Listings whose length is a multiple of the stdio buffer plus 0, 1 or 2 put each kind of write of a line (number, text, the
        # LISTO space, the newline) on the boundary.
        def listing_of_length(target, listo, tag):
            lines = [(10 * i, [0xF4] + [65 + (i % 26)] * 40) for i in range(1, 1 + target // 50)]
            for attempt in range(12):
                pth = os.path.join(scratch, "al_%s.bbc" % tag)
                open(pth, "wb").write(bc.prog("6502", lines))
                rc, err, L = run_limited([bas, "--listo=%d" % listo, pth], None, scratch, "al")
                if rc != 0:
                    raise common.MachineryError("aligned listing reference failed: %r" % err[:200])
                if L == target:
                    return pth
                ln, body = lines[-1]
                if target - L > 120:
                    lines.append((ln + 10, [0xF4] + [66] * 40))
                elif len(body) + target - L < 2:
                    lines.pop()
                else:
                    lines[-1] = (ln, body + [90] * (target - L) if target > L else body[:len(body) - (L - target)])
            raise common.MachineryError("could not build a listing of %d bytes (got %d)" % (target, L))
        aligned = []
        for m in (1, 2) if quick else (1, 2, 3, 5):
            for r in (0, 1, 2, 6, 7):
                for listo in (0, 1, 7):
                    pth = listing_of_length(4096 * m + r, listo, "%d_%d_%d" % (m, r, listo))
                    aligned.append(("basic", [bas, "--listo=%d" % listo, pth]))
                    if r == 1:
                        aligned.append(("basic", [bas, "--listo=%d" % listo, pth, empty]))
        jobs = []
        for tool, argv in cmds + aligned:
            rc, err, L = run_limited(argv, None, scratch, "full")
            if rc != 0 or L == 0:
                raise common.MachineryError("reference run of %r failed: rc=%s %r" % (argv[2:], rc, err[:200]))
            ks = {0, 1, L // 2, L - 1, L}
            for b in (4096, 8192):
                ks |= {b - 1, b, b + 1}
            if not quick:
                ks |= set(range(0, L + 1, 1 if L < 600 else 97))
            for k in sorted(x for x in ks if 0 <= x <= L):
                jobs.append((tool, argv, L, k, "file"))
            jobs.append((tool, argv, L, 0, "full"))
            jobs.append((tool, argv, L, 0, "pipe"))

        def do(ij):
            i, (tool, argv, L, k, mode) = ij
            rc, err, acc = run_limited(argv, k if mode == "file" else None, scratch, "j%d" % i, mode)
            short = [a for a in argv[1:] if not a.startswith("/")]
            name = next((a for a in short if not a.startswith("-") and a not in ("watford", "help")), short[0] if short else "(listing)")
            if tool == "basic":
                name = "bbcbasic_to_text"
            if "help" in short or "--help" in short:
                name = "help"
            return dict(e="stdout", tool=tool, name=name, cmd=short[-3:], L=L, k=k, mode=mode, rc=rc, errempty=0 if err.strip() else 1, accepted=acc if mode == "file" else 0,
                        err=err.decode("latin1")[-160:])
        events += common.pmap(do, list(enumerate(jobs)))
        # extraction: the limit applies to every file the process creates
        xjobs = []
        for cmdname, argv_tail, disc, dents in (("extract-files", ["extract-files"], d, ents), ("extract-files", ["extract-files"], d_small, ents_small),
                                               ("extract-files", ["extract-files"], d_tiny, ents_tiny), ("extract-unused", ["extract-unused"], d, ents)):
            for k in ([10, 20, 30, 36, 40, 100] if disc is d_tiny else []) + ([0, 1, 255, 256, 300, 12000, 100000] if quick else [0, 1, 2, 100, 255, 256, 257, 300, 400, 1000, 5000, 11999, 12000, 12001, 100000]):
                xjobs.append((cmdname, argv_tail, k, disc, dents))

        def dox(ij):
            i, (cmdname, tail, k, disc, dents) = ij
            dest = os.path.join(scratch, "x%d" % i)
            os.makedirs(dest)
            rc, err, _ = run_limited([dfs, "--file", disc.path] + tail + [dest], k, scratch, "x%d" % i)
            # expected files and sizes
            short = 0
            total = 0
            if cmdname == "extract-files":
                for e in dents:
                    fn = os.path.join(dest, ("%c." % e["dir"] if e["dir"] != 36 else "") + e["name"].decode())
                    want = e["length"]
                    got = os.path.getsize(fn) if os.path.exists(fn) else -1
                    total += 1
                    if got != want:
                        short += 1
                    inf = fn + ".inf"
                    try:
                        inftxt = open(inf, "rb").read()
                    except OSError:
                        inftxt = b""
                    if not (inftxt.endswith(b"\n") and b"CRC=" in inftxt):       # a complete .inf line
                        short += 1
            else:
                # unused runs are known from sector-map of the same disc: all files must be multiples of 256 and non-empty; compare with
                # the unlimited extraction
                ref = os.path.join(scratch, "xref%d" % i)
                os.makedirs(ref)
                subprocess.run([dfs, "--file", disc.path] + tail + [ref], stdout=subprocess.DEVNULL, stderr=subprocess.DEVNULL)
                for fn in os.listdir(ref):
                    total += 1
                    p2 = os.path.join(dest, fn)
                    if not os.path.exists(p2) or os.path.getsize(p2) != os.path.getsize(os.path.join(ref, fn)):
                        short += 1
                shutil.rmtree(ref, ignore_errors=True)
            shutil.rmtree(dest, ignore_errors=True)
            return dict(e="extract", tool="dfs", cmd=[cmdname], k=k, rc=rc, errempty=0 if err.strip() else 1, incomplete=short, files=total,
                        err=err.decode("latin1")[-160:])
        events += common.pmap(dox, list(enumerate(xjobs)))
        for e in events:
            if e["e"] == "stdout":
                chk.case((tuple(e["cmd"]), e["k"], e["mode"]), nontrivial=e["k"] < e["L"])
            else:
                chk.case((tuple(e["cmd"]), e["k"], "files"), nontrivial=e["incomplete"] > 0 or e["k"] < 12000)
        chk.sample(next(e for e in events if e["e"] == "stdout" and e["k"] == 4096))
        chk.sample(next(e for e in events if e["e"] == "extract"))
        trace = os.path.join(scratch, "trace.ndjson")
        with open(trace, "w") as f:
            for e in events:
                f.write(json.dumps(e) + "\n")
        ok, tr = common.validate_trace("TraceOutStream", "TraceOutStream.cfg", trace, timeout=1800)
        chk.add_tlc("TraceOutStream", tr)
        chk.traces += len(events)
        if not ok or not tr.verdicts:
            raise common.MachineryError("TraceOutStream did not consume the whole trace:\n" + tr.output[-3000:])
        for ln in sorted(tr.verdicts[-1]["bad"]):
            e = events[ln - 1]
            if e["e"] == "stdout":
                what = "exit0-incomplete" if e["rc"] == 0 else ("silent-failure" if e["errempty"] else "status")
                chk.violation("%s:%s:%s" % (e["tool"], e["name"], what),
                              "%s %s with stdout (%s) refusing writes after %d of %d bytes: exit %s, %d bytes accepted, stderr %s" %
                              (e["tool"], " ".join(e["cmd"]), e["mode"], e["k"], e["L"], e["rc"], e["accepted"], "EMPTY" if e["errempty"] else repr(e["err"][-80:])),
                              dict(event=e))
            else:
                what = "exit0-incomplete" if e["rc"] == 0 else ("silent-failure" if e["errempty"] else "status")
                chk.violation("dfs:%s:%s" % (e["cmd"][0], what),
                              "dfs %s with every created file limited to %d bytes: exit %s, %d of %d files incomplete, stderr %s" %
                              (e["cmd"][0], e["k"], e["rc"], e["incomplete"], e["files"], "EMPTY" if e["errempty"] else repr(e["err"][-80:])), dict(event=e))
        chk.extra["commands"] = len(cmds) + 2


def replay(chk, path):
    run(chk, "quick", 1)
