"""C03 - bbcbasic_to_text lists every well-formed program as doc/bbcbasic.5 defines.
Basic.tla: TLC checks the reader/decoder step machine of lines.c against the documented listing function RProgram for
every byte string over token-class alphabets (both framings); real-width sweeps (every byte as a token in all ten
dialect names, every extension pair, all 65536 line-number references, header numbers, LISTO 0..7 x loop nestings,
strings holding every byte, every body length) are run through the real binary from a file and from standard input,
and TraceBasic.tla judges each listing against RProgram with the dialect tables generated from the golden token map."""
import os, random
import common, basiccheck as bc


def run(chk, tier, seed):
    bdir = common.build("ndebug")
    exe = common.exe(bdir, "bbcbasic_to_text")
    quick = tier == "quick"
    rnd = random.Random(seed)
    tabs = bc.tables()
    chk.rule = ("programs = token sweep (every byte 01..FF in each of the 10 dialect names; every C6/C7/C8 pair), line-number "
                "references (all 65536 in thorough, every 13th in quick; non-canonical first bytes), header numbers, LISTO 0..7 x 13 "
                "loop nestings x 6 dialects, strings with every byte, body lengths 0..251; evaluation = one run; non-trivial = "
                "program the requirement classifies well-formed; distinct by (dialect, listo, program bytes)")
    chk.assumptions = ["token tables come from basic/testdata/golden-token-map.txt (pinned by the repository's own test)",
                       "indentation is judged only while loop nesting never goes negative; PDP11 0xC8 at end of line, trailing bytes "
                       "after the end marker, empty input and 3-byte little-endian lines are unspecified"]
    bc.model_check(chk, ["Basic_be_tok.cfg", "Basic_le_tok.cfg"])
    # strings, line-number references (0x8D) and loop tokens on one line: every 5-byte line body over {" 0x8D FOR NEXT A :} (TLC),
    # listed with LISTO 7 by the real binary
    str_cases = []
    for cfg, d in (("Basic_be_str.cfg", "6502"), ("Basic_le_str.cfg", "Z80")):
        r = common.tlc("Basic", cfg, timeout=3000)
        chk.add_tlc(cfg, r)
        if r.violated:
            chk.violation("model:%s:%s" % (cfg, r.violated), "Basic.tla (%s): %s\n%s" % (cfg, r.violated, "\n".join(r.cex[:30])), dict(cfg=cfg))
        inputs = sorted({tuple(c) for c in r.cases if len(c) >= 20})
        if quick:
            hot = [x for x in inputs if 141 in x and 34 in x and (227 in x or 237 in x)]
            rest = [x for x in inputs if x not in set(hot)]
            rnd.shuffle(rest)
            inputs = hot + rest[:600]
        for k, inp in enumerate(inputs):
            str_cases.append(("str-%d" % k, d if k % 4 else ("ARM" if d == "6502" else "Windows"), 7, bytes(inp)))
    cases = str_cases + list(bc.gen_random_programs(tabs, rnd, quick)) + list(bc.gen_tokens_sweep(tabs, quick)) + list(bc.gen_linenums(quick)) + list(bc.gen_listo(tabs, quick)) + list(bc.gen_strings(quick))
    with common.Scratch("c03") as scratch:
        def do(ic):
            i, (label, d, listo, data) = ic
            o = bc.run_one(exe, d, listo, data, scratch, "p%d" % i)
            evs = [bc.ev_run(label, d, listo, data, o)]
            if i % 5 == 0:
                o2 = bc.run_one(exe, d, listo, data, scratch, "q%d" % i, stdin=True)
                evs.append(dict(e="same", label=label, dialect=d, listo=listo, out=list(o.out), out2=list(o2.out),
                                rc=o.rc if o.rc is not None else -9, rc2=o2.rc if o2.rc is not None else -9))
            return evs
        events = [e for evs in common.pmap(do, list(enumerate(cases))) for e in evs]
        # a program's listing is its own: listed after a program that leaves loops open (or closes loops it never opened), with
        # every LISTO value, it is what it is alone
        for d in ("6502", "Z80", "ARM", "Windows"):
            tab = tabs[bc.CANON.get(d, d)]
            kF, kN, kR, kU = (bc.kwbyte(tab, k) for k in ("FOR", "NEXT", "REPEAT", "UNTIL"))
            progs = {"open": bc.prog(d, [(10, [kF, 73, 58, kR]), (20, [0xF1, 65])]), "close": bc.prog(d, [(10, [kN, 58, kU]), (20, [0xF1, 66])]),
                     "loop": bc.prog(d, [(10, [kF, 73]), (20, [kR]), (30, [0xF1, 67]), (40, [kU, 73]), (50, [kN])])}
            paths = {}
            for k, dat in progs.items():
                paths[k] = os.path.join(scratch, "own-%s-%s.bbc" % (d, k))
                open(paths[k], "wb").write(dat)
            for listo in range(8):
                single = {k: common.run([exe, "--dialect", d, "--listo=%d" % listo, paths[k]]) for k in progs}
                for seq in (("open", "loop"), ("close", "loop"), ("loop", "loop"), ("open", "close", "loop")):
                    o = common.run([exe, "--dialect", d, "--listo=%d" % listo] + [paths[k] for k in seq])
                    events.append(dict(e="multi", label="own-%s-%d" % ("+".join(seq), listo), dialect=d, listo=listo, out=list(o.out), rc=o.rc if o.rc is not None else -9,
                                       outs=[list(single[k].out) for k in seq], rcs=[single[k].rc for k in seq], inp=[ord(c) for c in "+".join(seq)]))
        # "reading from a file or from standard input gives the same listing": a file whose name begins with '-' (after --, and after
        # another file name) and a FIFO are files too
        for d in ("6502", "Z80", "ARM", "Windows"):
            tab = tabs[bc.CANON.get(d, d)]
            data = bc.prog(d, [(10, [0xF1, 34, 72, 105, 34]), (20, [bc.kwbyte(tab, "FOR"), 73, 61, 49]), (30, [0xF1, 73]), (40, [bc.kwbyte(tab, "NEXT")])])
            plain = os.path.join(scratch, "named-%s.bbc" % d)
            dash = os.path.join(scratch, "-named-%s.bbc" % d)
            for p_ in (plain, dash):
                open(p_, "wb").write(data)
            fifo = os.path.join(scratch, "fifo-%s" % d)
            for listo in (0, 7):
                ref = common.run([exe, "--dialect", d, "--listo=%d" % listo, plain], stdin=b"")
                o1 = common.run([exe, "--dialect", d, "--listo=%d" % listo, "--", os.path.basename(dash)], cwd=scratch, stdin=b"")
                o2 = common.run([exe, "--dialect", d, "--listo=%d" % listo, plain, os.path.basename(dash)], cwd=scratch, stdin=b"")
                if os.path.exists(fifo):
                    os.unlink(fifo)
                os.mkfifo(fifo)
                import threading
                def feed():
                    with open(fifo, "wb") as fh:
                        fh.write(data)
                th = threading.Thread(target=feed, daemon=True)
                th.start()
                o3 = common.run([exe, "--dialect", d, "--listo=%d" % listo, fifo], stdin=b"", timeout=30)
                th.join(timeout=10)
                for label, o, want_out in (("dashname", o1, ref.out), ("after-file", o2, ref.out + ref.out), ("fifo", o3, ref.out)):
                    events.append(dict(e="same", label="named-" + label, dialect=d, listo=listo, out=list(want_out), out2=list(o.out),
                                       rc=ref.rc if ref.rc is not None else -9, rc2=o.rc if o.rc is not None else -9))
        for e in events:
            if e["e"] == "run":
                chk.case((e["dialect"], e["listo"], bytes(e["inp"])), nontrivial=e["rc"] == 0 and len(e["out"]) > 0)
            elif e["e"] == "multi":
                chk.case(("own", e["label"], e["dialect"]))
            else:
                chk.case(("same", e["label"], e["dialect"], e["listo"]))
        chk.sample(dict(label=events[0]["label"], dialect=events[0]["dialect"], inp=bytes(events[0]["inp"])[:40].hex(), out=bytes(events[0]["out"])[:80].decode("latin1")))
        e2 = next(e for e in events if e["e"] == "run" and e["label"].startswith("listo-3-7"))
        chk.sample(dict(label=e2["label"], dialect=e2["dialect"], inp=bytes(e2["inp"]).hex(), out=bytes(e2["out"]).decode("latin1")))
        bc.judge(chk, events, scratch)
        chk.traces += len(events)
        chk.extra["programs"] = len(cases)


def replay(chk, path):
    run(chk, "quick", 1)
