"""C19 - behaviour does not depend on whether assertions are compiled in.
Two builds of /repo's working tree -- the pinned NDEBUG configuration and the documented default cmake build with
assertions -- replay the same session corpus (valid images of every container with all commands, catalogue field and
layout cases, BASIC programs of every dialect name incl. no --dialect at all, hostile images and inputs); TraceDiff.tla
judges equality of standard output and exit status.  A run the assertion build stops on a failed assertion is excused.
Cli.tla carries the build configuration only through the requirement that no observable effect lives inside an assert:
a source scan lists every assert() whose argument calls a function or assigns."""
import os, json, random, re, subprocess
import common, mkdisc, discs
import c10, c07, basiccheck as bc


def assert_scan():
    """assert( ... ) arguments in /repo that contain a call or an assignment (candidates for effects inside assert)."""
    hits = []
    for root in ("basic", "dfs"):
        d = os.path.join(common.REPO, root)
        for fn in sorted(os.listdir(d)):
            if not fn.endswith((".c", ".cc", ".h")):
                continue
            text = open(os.path.join(d, fn), errors="replace").read()
            for m in re.finditer(r"\bassert\s*\(", text):
                depth, i = 1, m.end()
                while i < len(text) and depth:
                    depth += {"(": 1, ")": -1}.get(text[i], 0)
                    i += 1
                arg = text[m.end():i - 1]
                calls = [c for c in re.findall(r"\b([A-Za-z_][\w:]*)\s*\(", arg) if c.split("::")[-1] not in
                         ("sizeof", "size", "get", "max", "min", "empty", "has_value", "begin", "end", "strlen", "is_sorted", "all_of", "cbegin", "cend",
                          "numeric_limits", "back", "static_cast", "valid", "is_drive_connected", "drive", "reverse_bit_order", "origin", "memcmp")]
                if calls or re.search(r"[^=!<>]=[^=]", arg):
                    hits.append("%s/%s: assert(%s)" % (root, fn, " ".join(arg.split())[:100]))
    return hits


def run(chk, tier, seed):
    bnd = common.build("ndebug")
    bas = common.build("assert")
    rnd = random.Random(seed)
    quick = tier == "quick"
    chk.rule = ("sessions = dfs commands on valid images of every container, hostile header combinations, and bbcbasic_to_text on well-formed, "
                "truncated and hostile programs in all ten dialect names and with no --dialect at all; each run on the NDEBUG build and on "
                "the assertion build; evaluation = one comparison; non-trivial = NDEBUG run exits 0; distinct by (tool, argv, input)")
    chk.assumptions = ["a run in which the assertion build reports 'Assertion ... failed' is excused, as the statement says"]
    scan = assert_scan()
    chk.extra["asserts_with_calls_or_assignments"] = scan
    r = common.tlc("Cli", "Cli_small.cfg", timeout=1800)
    chk.add_tlc("Cli_small.cfg", r)
    events = []
    with common.Scratch("c19") as scratch:
        sessions = []     # (tool, argv tail, stdin bytes or None, tag)
        for tag, path, cmds in c10.corpus(scratch, rnd):
            for cmd in cmds:
                sessions.append(("dfs", ["--file", path] + cmd, None, tag))
        rh = common.tlc("Hostile", "Hostile.cfg", timeout=1800)
        chk.add_tlc("Hostile.cfg", rh)
        hostile = sorted({json.dumps(c, sort_keys=True): c for c in rh.cases}.values(), key=lambda c: json.dumps(c, sort_keys=True))
        rnd.shuffle(hostile)
        for i, c in enumerate(hostile[: (150 if quick else 2500)]):
            p = c07.build_hostile(c, os.path.join(scratch, "h%d" % i), rnd)
            for cmd in (["cat"], ["sector-map"], ["show-titles"]):
                sessions.append(("dfs", ["--file", p] + cmd, None, "hostile-" + c["kind"]))
        tabs = bc.tables()
        sweep = list(bc.gen_tokens_sweep(tabs, True))
        progs = (list(bc.gen_listo(tabs, True))[:60] + list(bc.gen_strings(True))[:20] + list(bc.gen_hostile(rnd, True))[:150] +
                 [x for x in sweep if x[1] == "PDP11" or x[0] in ("tok-all",) or x[0].startswith("ext-")][:400] + sweep[::7] +
                 list(bc.gen_linenums(True))[:6])
        for i, (label, d, listo, data) in enumerate(progs):
            p = os.path.join(scratch, "b%d.bbc" % i)
            open(p, "wb").write(data)
            sessions.append(("bbcbasic_to_text", ["--dialect", d, "--listo", str(listo), p], None, "basic-" + label.split("-")[0]))
            if i % 4 == 0 and not bc.is_le(d):
                sessions.append(("bbcbasic_to_text", [p], None, "basic-default-dialect"))       # no --dialect at all
                sessions.append(("bbcbasic_to_text", ["--listo", "3", "-"], data, "basic-default-dialect-stdin"))

        def do(sess):
            tool, tail, stdin, tag = sess
            a = common.run([common.exe(bnd, tool)] + tail, stdin=stdin, timeout=60)
            b = common.run([common.exe(bas, tool)] + tail, stdin=stdin, timeout=60)
            excused = b"Assertion" in b.err and b"failed" in b.err
            return dict(e="build", tool=tool, tag=tag, argv=[x if len(x) < 50 else os.path.basename(x) for x in tail],
                        same=1 if (excused or (a.out == b.out and a.rc == b.rc)) else 0, excused=1 if excused else 0,
                        rc=a.rc if a.rc is not None else -9, rc2=b.rc if b.rc is not None else -9, clean=1,
                        out_ndebug=a.out[:120].decode("latin1"), out_assert=b.out[:120].decode("latin1"))
        events = common.pmap(do, sessions)
        for e in events:
            chk.case((e["tool"], tuple(e["argv"]), e["tag"]), nontrivial=e["rc"] == 0)
        chk.extra["excused_by_failed_assertion"] = sum(e["excused"] for e in events)
        chk.sample(events[0])
        chk.sample(next(e for e in events if e["tag"] == "basic-default-dialect"))
        trace = os.path.join(scratch, "trace.ndjson")
        with open(trace, "w") as f:
            for e in events:
                f.write(json.dumps(common.no_nulls(e)) + "\n")
        ok, tr = common.validate_trace("TraceDiff", "TraceDiff.cfg", trace, timeout=1800)
        chk.add_tlc("TraceDiff", tr)
        chk.traces += len(events)
        if not ok or not tr.verdicts:
            raise common.MachineryError("TraceDiff did not consume the whole trace:\n" + tr.output[-3000:])
        for ln in sorted(tr.verdicts[-1]["bad"]):
            e = events[ln - 1]
            chk.violation("%s:%s" % (e["tool"], e["tag"]),
                          "%s %s: NDEBUG build rc=%s prints %r; assertion build rc=%s prints %r" %
                          (e["tool"], " ".join(e["argv"]), e["rc"], e["out_ndebug"][:80], e["rc2"], e["out_assert"][:80]), dict(event=e))
        chk.extra["sessions"] = len(sessions)


def replay(chk, path):
    run(chk, "quick", 1)
