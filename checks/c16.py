"""C16 - every attached image gets its own drive number and commands read the right one.
spec/Storage.tla (M |= R by TLC) -> histories replayed through h_storage and the dfs CLI -> observations
judged by spec/TraceStorage.tla (requirement-level relation RAttach / RRead)."""
import os, json, re, random, subprocess, zlib
import common, mkdisc
from common import MachineryError


def hist_tokens(h):
    toks = []
    for s in h:
        if s["a"] == "policy":
            toks.append("P" if s["p"] == "PHYSICAL" else "F")
        else:
            toks.append(str(s["k"]))
    return toks


def run_h_storage(bdir, lines):
    p = subprocess.run([common.exe(bdir, "h_storage")], input="\n".join(lines) + "\n", stdout=subprocess.PIPE,
                       stderr=subprocess.PIPE, text=True, timeout=600, env=dict(os.environ, **common.SAN_ENV))
    outs = p.stdout.split("\n")
    if p.returncode != 0 or len(outs) < len(lines):
        return None, p
    return [json.loads(o) for o in outs[:len(lines)]], p


DESC_RE = re.compile(r"img (\d+) side (\d+)")


def events_from_harness(hid, toks, res):
    ev = [dict(e="Reset", h=hid)]
    it = iter(res["steps"])
    for t in toks:
        if t in "PF":
            ev.append(dict(e="policy", p="PHYSICAL" if t == "P" else "FIRST"))
        else:
            st = next(it)
            mp = []
            for d, desc in st["map"]:
                m = DESC_RE.search(desc)
                mp.append([d, int(m.group(1)), int(m.group(2))] if m else [d, -1, -1])
            ev.append(dict(e="attach", k=int(t.lstrip("U")), ok=bool(st["ok"]), map=mp))
    return ev


# ------------------------------------------------------------------ CLI binding

HALF_BLANK = (1, 3)
GZ_SAME_NAME = (1, 2, 3)


def make_images(scratch):
    """image files per kind; every surface has a distinct title and a file $.ID naming it."""
    def surf(tag, n=400):
        # (FAR holds the same tag beyond the first 4 KiB, where neither the sector cache nor a stdio buffer filled while the image was
        # identified can answer for the file the drive really reads from)
        img = mkdisc.surface_dfs(n, zlib.crc32(tag.encode()) & 0xFFFF, title=tag.encode(),
                                 entries=[mkdisc.entry("FAR", length=len(tag) + 1, start=30), mkdisc.entry("ID", length=len(tag) + 1, start=2)])
        mkdisc.put(img, 2, tag.encode() + b"\r")
        mkdisc.put(img, 30, tag.encode() + b"\r")
        return img
    paths = {}
    for i in range(5):
        if i in GZ_SAME_NAME:
            # compressed, and all with the same base name (in different directories)
            import gzip
            os.makedirs(os.path.join(scratch, "gz%d" % i), exist_ok=True)
            paths[(1, i)] = mkdisc.write(os.path.join(scratch, "gz%d" % i, "same.ssd.gz"), gzip.compress(bytes(surf("I%dS0" % i))))
        else:
            paths[(1, i)] = mkdisc.write(os.path.join(scratch, "one%d.ssd" % i), bytes(surf("I%dS0" % i)))
        if i in HALF_BLANK:
            # a one-sided disc in a two-sided image: side 1 was never formatted (0xE5 fill); it is still a surface of the image and
            # takes its drive number (80 tracks, so that only one geometry can hold side 0's file system)
            paths[(2, i)] = mkdisc.write(os.path.join(scratch, "two%d.dsd" % i),
                                         mkdisc.container_interleaved(surf("I%dS0" % i, 800), bytes([0xE5]) * (800 * 256), 10))
        else:
            paths[(2, i)] = mkdisc.write(os.path.join(scratch, "two%d.dsd" % i),
                                         mkdisc.container_interleaved(surf("I%dS0" % i), surf("I%dS1" % i), 10))
        slots = {s: bytes(surf("I%dS%d" % (i, s), 800)) for s in (0, 1, 2, 510 if i == 0 else 5)}
        paths[(3, i)] = mkdisc.write(os.path.join(scratch, "mmb%d.mmb" % i), mkdisc.container_mmb(slots, nslots_physical=6 if i else None))
    return paths


CFG_RE = re.compile(r"^Drive\s+(\d+): (empty|occupied)(.*)$")


def parse_config(stderr, names):
    """--show-config projection: list of [drive, img, side] for occupied drives."""
    mp = []
    unf = []
    for line in stderr.decode("latin1").split("\n"):
        m = CFG_RE.match(line)
        if not m or m.group(2) != "occupied":
            continue
        d, rest = int(m.group(1)), m.group(3)
        img = -1
        for fn, i in names.items():
            if rest.endswith(fn) or (fn + " side") in rest:
                img = i
        side = 0
        ms = re.search(r"side (\d+) of ", rest) or re.search(r" side (\d+)$", rest)
        if ms:
            side = int(ms.group(1))
        ms = re.search(r"slot\s+(\d+) of ", rest)
        if ms:
            side = int(ms.group(1))
        mp.append([d, img, side])
        if "unformatted" in rest or "missing" in rest or "unknown slot" in rest:
            unf.append(d)
    return mp, unf


def cli_history(dfs, paths, toks, scratch, hook_runs=None, env=None):
    """Run the history's prefixes through dfs --show-config; returns events incl. read observations."""
    ev = []
    argv = []
    names = {}
    nimg = 0
    kinds = []
    for t in toks:
        if t == "P":
            argv.append("--drive-physical")
            ev.append(dict(e="policy", p="PHYSICAL"))
            continue
        if t == "F":
            argv.append("--drive-first")
            ev.append(dict(e="policy", p="FIRST"))
            continue
        k = int(t)
        path = paths[(k, nimg)]
        names[path] = nimg
        kinds.append(k)
        argv += ["--file", path]
        o = common.run([dfs] + argv + ["--show-config", "help"], timeout=60, env=env)
        ok = o.ok_alphabet() and o.rc == 0
        mp, unf = parse_config(o.err, names)
        if k == 2 and nimg in HALF_BLANK:
            unf = unf + [d_ for d_, i_, s_ in mp if i_ == nimg and s_ == 1]      # nothing can be read through a side without a file system
        ev.append(dict(e="attach", k=(511 if k == 3 else k), ok=ok, map=mp, unf=unf, cli=True))
        nimg += 1
    # the same history as the storage layer itself recorded it (hook events at connect_drives / connect_internal / select_drive and
    # the cache): collected here, judged by TraceStorageHook.tla
    final = ev[-1]["map"] if ev and ev[-1]["e"] == "attach" else []
    if hook_runs is not None and final:
        import readtrace
        for d_ in sorted({x[0] for x in final})[:4]:
            o, tev = readtrace.record([dfs] + argv + ["cat", str(d_)], scratch, "sh%d" % d_, kinds=readtrace.STORAGE_KINDS)
            hook_runs.append(("dfs %s cat %d (rc=%s)" % (" ".join(a if not a.startswith("/") else os.path.basename(a) for a in argv), d_, o.rc), tev))
    # reads: address every drive 0..max+1 in three ways; the title / ID file tells which surface was read
    occupied = {d: (i, s) for d, i, s in final}
    maxd = max(occupied) if occupied else 0
    targets = sorted(set(list(range(0, min(maxd, 12) + 2)) + [d for d in occupied if occupied[d][1] in (0, 1, 2, 5, 510) and kinds[occupied[d][0]] == 3][:8]))
    for d in targets:
        for form in ("arg", "opt", "colon", "far"):
            if form == "arg":
                o = common.run([dfs] + argv + ["cat", str(d)], timeout=60, env=env)
                m = re.match(rb"^(I\d+S\d+)\s", o.out)
            elif form == "opt":
                o = common.run([dfs] + argv + ["--drive", str(d), "type", "ID"], timeout=60, env=env)
                m = re.match(rb"^(I\d+S\d+)\n", o.out)
            elif form == "far":
                o = common.run([dfs] + argv + ["type", ":%d.$.FAR" % d], timeout=60, env=env)
                m = re.match(rb"^(I\d+S\d+)\n", o.out)
            else:
                o = common.run([dfs] + argv + ["type", ":%d.$.ID" % d], timeout=60, env=env)
                m = re.match(rb"^(I\d+S\d+)\n", o.out)
            if o.rc == 0 and m:
                mm = re.match(rb"I(\d+)S(\d+)", m.group(1))
                ev.append(dict(e="read", d=d, form=form, img=int(mm.group(1)), side=int(mm.group(2))))
            elif o.rc == 0:
                ev.append(dict(e="read", d=d, form=form, img=-2, side=-2))   # succeeded but unidentifiable
            else:
                ev.append(dict(e="read", d=d, form=form, img=-1, side=-1))   # failed
    return ev


def run(chk, tier, seed):
    bdir = common.build("san")
    rnd = random.Random(seed)
    chk.rule = ("histories = every sequence of --drive-first/--drive-physical/--file(k sides) accepted by Storage.tla "
                "within the constants (TLC BFS, deduplicated); each is replayed through StorageConfiguration (h_storage) "
                "and a sample through the dfs CLI; non-trivial = history with >= 2 images; distinct by history")
    chk.assumptions = ["h_storage dummy drives stand for image surfaces", "--show-config output format parsed by regex"]
    # 1. model check M |= R, emit histories
    cfg = "Storage_small.cfg" if tier == "quick" else "Storage_thorough.cfg"
    r = common.tlc("Storage", cfg, coverage=True)
    chk.add_tlc(cfg, r)
    if r.violated:
        chk.violation("model:" + r.violated, "Storage.tla: implementation model violates requirement %s\n%s" %
                      (r.violated, "\n".join(r.cex[:60])), dict(spec="Storage.tla", cfg=cfg))
    for act in ("SetPolicy", "Attach"):
        if r.coverage.get(act, (0, 0))[0] == 0:
            raise MachineryError("vacuous model: action %s never taken" % act)
    if tier == "thorough":
        r2 = common.tlc("Storage", "Storage_deep.cfg")
        chk.add_tlc("Storage_deep.cfg", r2)
        if r2.violated:
            chk.violation("model:" + r2.violated, "Storage.tla (deep): %s\n%s" % (r2.violated, "\n".join(r2.cex[:60])),
                          dict(spec="Storage.tla", cfg="Storage_deep.cfg"))
    hists = {}
    for h in r.cases:
        hists[" ".join(hist_tokens(h))] = h
    keys = sorted(hists)
    # plus histories with unformatted (MMB-like) images, same allocation rules
    keys_u = [k.replace("3", "U3") for k in keys if "3" in k][: len(keys) // 4]
    lines = keys + keys_u
    # block reads after the last attach: every drive 0..max+1, sectors around the cache size, each sector twice and interleaved
    def with_reads(line, k):
        rr = random.Random(seed * 1009 + k)
        toks = []
        for _ in range(10):
            toks.append("r%d:%d" % (rr.randrange(0, 12), rr.choice([0, 1, 3, 4, 5, 0, 1])))
        return line + " " + " ".join(toks)
    lines = [with_reads(l, k) for k, l in enumerate(lines)]
    chk.exhaustive = True
    # 2. replay through the real StorageConfiguration
    res, p = run_h_storage(bdir, lines)
    with common.Scratch("c16") as scratch:
        trace = os.path.join(scratch, "trace.ndjson")
        events = []
        idx = {}
        if res is None:
            chk.violation("h_storage-crash", "h_storage died: rc=%s %s" % (p.returncode, p.stderr[-2000:]),
                          dict(lines=lines[:50]))
        else:
            for hid, (line, rr) in enumerate(zip(lines, res)):
                idx[hid] = ("h_storage", line)
                events += events_from_harness(hid, [t for t in line.split() if not t.startswith("r")], rr)
                for d_, sec_, gi, gs, gsec in rr.get("reads", []):
                    events.append(dict(e="block", d=d_, sec=sec_, img=gi, side=gs, got=gsec))
                chk.case(("h", line), nontrivial=sum(1 for t in line.split() if t not in "PF" and not t.startswith("r")) >= 2)
                # show_drive_configuration must agree with the map (the "--show-config reports this assignment" part)
                cfgmap = {}
                for ln in rr["config"].split("\n"):
                    m = CFG_RE.match(ln)
                    if m and m.group(2) == "occupied":
                        mm = DESC_RE.search(m.group(3))
                        cfgmap[int(m.group(1))] = mm.group(0) if mm else "unformatted"
                final = {d: desc for d, desc in (rr["steps"][-1]["map"] if rr["steps"] else [])}
                if cfgmap != final:
                    chk.violation("show-config-differs", "show_drive_configuration disagrees with the drive map for history %r: %r vs %r"
                                  % (line, cfgmap, final), dict(history=line))
            chk.sample(dict(history=lines[len(lines) // 2], observed=res[len(lines) // 2]["steps"]))
        # 3. CLI sample
        dfs = common.exe(bdir, "dfs")
        paths = make_images(scratch)
        ncli = 40 if tier == "quick" else 250
        cand = [k for k in keys if sum(1 for t in k.split() if t not in "PF") >= 2]
        rnd.shuffle(cand)
        # keep MMB histories few (511 drives each)
        chosen = [k for k in cand if "3" not in k][: ncli * 3 // 4] + [k for k in cand if "3" in k][: ncli // 4]
        hbase = len(lines)

        def do(i_k):
            i, k = i_k
            hr = []
            sub = os.path.join(scratch, "cli%d" % i)
            os.makedirs(sub, exist_ok=True)
            # (every second history with TMPDIR pointing at a directory of its own)
            return cli_history(dfs, paths, k.split(), sub, hook_runs=hr, env=({"TMPDIR": sub} if i % 2 == 0 else None)), hr
        both = common.pmap(do, list(enumerate(chosen)))
        cli_ev = [x for x, _ in both]
        hook_runs = [r_ for _, hr in both for r_ in hr]
        for i, (k, evs) in enumerate(zip(chosen, cli_ev)):
            hid = hbase + i
            idx[hid] = ("cli", k)
            events.append(dict(e="Reset", h=hid))
            events += evs
            chk.case(("cli", k))
        if chosen:
            chk.sample(dict(cli_history=chosen[0], events=[e for e in cli_ev[0] if e["e"] != "attach"][:6]))
        with open(trace, "w") as f:
            for e in events:
                f.write(json.dumps(e) + "\n")
        if hook_runs:
            import readtrace
            readtrace.validate_storage(chk, hook_runs, scratch)
        # 4. judge by TLC
        ok, tr = common.validate_trace("TraceStorage", "TraceStorage.cfg", trace, timeout=900)
        chk.add_tlc("TraceStorage", tr)
        chk.traces += len(idx)
        if not tr.verdicts:
            raise MachineryError("TraceStorage produced no verdict (accepted=%s):\n%s" % (ok, tr.output[-2000:]))
        v = tr.verdicts[-1]
        if not ok:
            raise MachineryError("TraceStorage did not consume the whole trace:\n" + tr.output[-2000:])
        chk.drift += len(v["drift"])
        for hid in v["bad"]:
            src, line = idx[hid]
            chk.violation("%s:alloc" % src if hid not in v.get("badread", []) else "%s:read" % src,
                          "history %r violates the C16 requirement relation (TraceStorage bad set)" % line,
                          dict(history=line, via=src))
        for hid in v.get("badread", []):
            if hid in v["bad"]:
                continue
            src, line = idx[hid]
            chk.violation("%s:read" % src, "history %r: a command addressed to drive k did not read the surface attached to k" % line,
                          dict(history=line, via=src))
        chk.extra["histories_h_storage"] = len(lines)
        chk.extra["histories_cli"] = len(chosen)
        chk.extra["read_observations"] = sum(1 for e in events if e["e"] == "read")


def replay(chk, path):
    rep = json.load(open(path))["replay"]
    print("replay: history", rep.get("history"))
    run(chk, "quick", 1)
