"""C13 - file-system variant and geometry are identified from the on-disc markers only.
Identify.tla: TLC checks probe_format's test sequence against the marker definition for every combination of the
markers (and probe_geometry's choice against 'large enough'); every realisable combination is built as a real image,
the variant dfs treated it as, the geometry it chose and its listing are observed, and TraceIdentify.tla judges variant,
geometry and -- across discs that differ only in file bodies -- equality of the listing."""
import os, json, re, hashlib
import common, mkdisc, discs

NSEC = 1440


def realise(c, scratch, tag):
    """Build the image for marker combination c['d']; returns path or None if the combination cannot exist."""
    x = c["d"]
    salt = 7
    img = mkdisc.blank_surface(NSEC, salt)
    ents = []
    if x["start"]:
        ents.append(mkdisc.entry("F", length=0 if x["flen0"] else 300, start=x["start"], load=0x1900, exe=0x8023))
    elif x["flen0"]:
        return None, None          # no file: nothing to be of zero length
    opus_listed = x["vols"] != "none"
    a_len = (40 - 1) * 18
    cat_total = a_len if opus_listed else x["total"]
    if x["vols"] in ("valid", "valid1") and not x["cat0"]:
        return None, None          # volume A's catalogue *is* sectors 0/1
    if x["start"] and not x["cat0"]:
        return None, None          # a file is only "catalogued" by a valid catalogue
    s0, s1 = mkdisc.catalog_fragment(b"IDENT", 0x21, 1, cat_total, ents, count_byte=None if x["cat0"] else 5,
                                     byte6_extra=8 if x["hdfs"] else 0)
    mkdisc.put(img, 0, s0)
    mkdisc.put(img, 1, s1)
    if opus_listed:
        # valid1: B is a single track (the minimum), C has the rest
        b0, b1 = mkdisc.catalog_fragment(b"VOLB", 0, 0, 18 if x["vols"] == "valid1" else 720, [mkdisc.entry("BF", length=10, start=0)],
                                         count_byte=None if x["vols"] not in ("invalid", "invalid-mid") else 5)
        mkdisc.put(img, 2, b0)
        mkdisc.put(img, 3, b1)
        if x["vols"] in ("valid1", "invalid-mid"):
            c0, c1 = mkdisc.catalog_fragment(b"VOLC", 0, 0, 39 * 18, [mkdisc.entry("CF", length=10, start=0)])
            mkdisc.put(img, 4, c0)
            mkdisc.put(img, 5, c1)
    if x["aa2"]:
        img[2 * 256:2 * 256 + 8] = b"\xAA" * 8
    else:
        if bytes(img[2 * 256:2 * 256 + 8]) == b"\xAA" * 8:
            img[2 * 256] = 0
    s16 = bytearray(mkdisc.stamp(salt, 16))
    s16[0] = 0x20
    tot = 1440 if x["totok"] else 1000
    s16[1], s16[2] = tot >> 8, tot & 255
    s16[3] = 18 if x["spt18"] else 10
    s16[4] = 80
    for i in range(5, 24):
        s16[i] = 0
    if opus_listed:
        s16[8] = 1
        s16[10] = 40
        if x["vols"] in ("valid1", "invalid-mid"):
            s16[12] = 41
    mkdisc.put(img, 16, bytes(s16))
    data = bytes(img)
    if not x["lastok"]:
        data = data[:900 * 256]
    path = os.path.join(scratch, "%s.%s" % (tag, c["ext"]))
    mkdisc.write(path, data)
    return path, cat_total


def observe(dfs, path, cat_total, pre=None, drive="0"):
    """pre: image files attached before `path` in the same run (the observed surface is then `drive`)."""
    files = []
    for p_ in (pre or []) + [path]:
        files += ["--file", p_]
    if pre is not None:
        return observe_session(dfs, files, drive, cat_total)
    o = common.run([dfs, "--file", path, "--show-config", "cat"], timeout=30)
    out = o.out.decode("latin1")
    if o.rc != 0:
        variant = "NONE" if (o.ok_alphabet() and o.err.strip()) else "CRASH"
    else:
        first = out.split("\n")[0]
        if " files of 62 on " in out:
            variant = "WDFS"
        elif first.startswith(" ") and "Directory" in out:
            variant = "OPUS"
        elif not re.search(r"\([0-9A-F]{2}\)", first):
            variant = "HDFS"
        else:
            variant = "DFS"
    cyl = spt = 0
    m = re.search(r"Drive 0: occupied, .*? (\d+) tracks, (\d+) sectors per track", o.err.decode("latin1"))
    if m:
        cyl, spt = int(m.group(1)), int(m.group(2))
    o2 = common.run([dfs, "--file", path, "info", "#.*"], timeout=30)
    o3 = common.run([dfs, "--file", path, "show-titles"], timeout=30)
    listing = hashlib.md5(o.out + b"|" + o2.out + b"|" + o3.out + b"|%d%d" % (o2.rc or 0, o3.rc or 0)).hexdigest()[:12]
    return dict(variant=variant, cyl=cyl, spt=spt, cattotal=cat_total, listing=listing, rc=o.rc if o.rc is not None else -9)


def observe_session(dfs, files, drive, cat_total):
    o = common.run([dfs, "--drive-first"] + files + ["--show-config", "cat", drive], timeout=30)
    out = o.out.decode("latin1")
    if o.rc != 0:
        variant = "NONE" if (o.ok_alphabet() and o.err.strip()) else "CRASH"
    else:
        first = out.split("\n")[0]
        variant = "WDFS" if " files of 62 on " in out else "OPUS" if (first.startswith(" ") and "Directory" in out) else \
                  "HDFS" if not re.search(r"\([0-9A-F]{2}\)", first) else "DFS"
    cyl = spt = 0
    m = re.search(r"Drive %s: occupied, .*? (\d+) tracks, (\d+) sectors per track" % drive, o.err.decode("latin1"))
    if m:
        cyl, spt = int(m.group(1)), int(m.group(2))
    o2 = common.run([dfs, "--drive-first"] + files + ["--drive", drive, "info", "#.*"], timeout=30)
    # the listing as it would be on drive 0 (only the drive number differs)
    norm = lambda b: re.sub(rb"Drive %s\b" % drive.encode(), b"Drive 0", re.sub(rb":%s\." % drive.encode(), b":0.", b))
    listing = hashlib.md5(norm(o.out) + b"|" + o2.out + b"|%d" % (o2.rc or 0)).hexdigest()[:12]
    return dict(variant=variant, cyl=cyl, spt=spt, cattotal=cat_total, listing=listing, rc=o.rc if o.rc is not None else -9)


def run(chk, tier, seed):
    bdir = common.build("san")
    dfs = common.exe(bdir, "dfs")
    chk.rule = ("discs = every combination of the markers of Identify.tla (HDFS bit, 0xAA run at sector 2, a catalogued file's 10-bit "
                "start sector incl. 2/0x102/0x202/0x302, the four parts of an Opus volume table, catalogue validity) that can exist; "
                "evaluation = identification of one disc (cat, info, show-titles, --show-config); non-trivial = disc the markers define as "
                "some variant; distinct by marker combination")
    chk.assumptions = ["variant is observed through ui conventions of `cat` (62-file footer, Opus header, HDFS lacks the cycle number)",
                       "bodies are pseudo-random stamps; marker-imitating bodies are the aa2/start=2 and sector-16 field combinations"]
    cfg = "Identify_small.cfg" if tier == "quick" else "Identify_thorough.cfg"
    r = common.tlc("Identify", cfg)
    chk.add_tlc(cfg, r)
    if r.violated:
        chk.violation("model:" + r.violated, "Identify.tla: probe model violates %s\n%s" % (r.violated, "\n".join(r.cex[:30])), dict(spec="Identify.tla"))
    cases = sorted({json.dumps(c, sort_keys=True): c for c in r.cases}.values(), key=lambda c: json.dumps(c, sort_keys=True))
    if len(cases) != r.distinct:
        raise common.MachineryError("Identify: %d cases for %d states" % (len(cases), r.distinct))
    chk.exhaustive = True
    with common.Scratch("c13") as scratch:
        def do(ic):
            i, c = ic
            path, ct = realise(c, scratch, "i%d" % i)
            if path is None:
                return None
            ob = observe(dfs, path, ct)
            os.unlink(path)
            return dict(ob, e="ident", id=i, d=c["d"], ext=c["ext"], g="sdd1440")
        events = [e for e in common.pmap(do, list(enumerate(cases))) if e is not None]
        chk.extra["unrealisable_combinations"] = len(cases) - len(events)
        # geometry / body independence on other containers: a file body lying where the catalogue of a second side would be
        # (sector 400 of an 800-sector .ssd, 720 of a 1440-sector .sdd) either looks like a catalogue or does not
        def geom_case(args):
            gi, ext, nsec, other, variant, forged = args
            x = dict(hdfs=(variant == "HDFS"), aa2=(variant == "WDFS"), start=other, flen0=False, spt18=False, totok=False, vols="none", lastok=True, cat0=True, total=nsec if nsec <= 1023 else 1023)
            img = mkdisc.blank_surface(nsec, 9)
            ents = [mkdisc.entry("BODY", length=512, start=other, load=0x1900, exe=0x8023), mkdisc.entry("LOW", length=100, start=6)]
            s0, s1 = mkdisc.catalog_fragment(b"GEOM", 0x11, 2, x["total"], ents, byte6_extra=8 if x["hdfs"] else 0)
            mkdisc.put(img, 0, s0); mkdisc.put(img, 1, s1)
            if variant == "WDFS":
                w0, w1 = mkdisc.catalog_fragment(b"", 0x11, 2, x["total"], [], marker=True)
                mkdisc.put(img, 2, w0); mkdisc.put(img, 3, w1)
            if forged:
                f0, f1 = mkdisc.catalog_fragment(b"FORGED", 1, 0, x["total"], [mkdisc.entry("FAKE", length=256, start=10)])
                mkdisc.put(img, other, f0); mkdisc.put(img, other + 1, f1)
            path = os.path.join(scratch, "g%d.%s" % (gi, ext))
            mkdisc.write(path, bytes(img))
            ob = observe(dfs, path, x["total"])
            # the forged body is file content: leave it out of the listing comparison by hashing cat/info/show-titles only (done in observe)
            os.unlink(path)
            return dict(ob, e="ident", id=100000 + gi, d=x, ext=ext, g="%s%d" % (ext, nsec))
        gjobs = []
        for ext, nsec, other in (("ssd", 800, 400), ("sdd", 1440, 720), ("ssd", 400, 350)):
            for variant in ("DFS", "WDFS", "HDFS"):
                for forged in (False, True):
                    gjobs.append((len(gjobs), ext, nsec, other, variant, forged))
        gev = common.pmap(geom_case, gjobs)
        events += gev
        # name hints come from the end of the file name only: the same image under directories and stems that contain ".sdd.", ".dsd."
        # and the like is identified (variant, geometry, listing) exactly as in a plain directory
        def path_case(args):
            pi, ext, nsec, total, where = args
            img = mkdisc.surface_dfs(nsec, 9, title=b"PATHS", total=total, entries=[mkdisc.entry("LOW", length=100, start=6)])
            dname, stem = where
            ddir = os.path.join(scratch, "pth%d" % pi, dname) if dname else os.path.join(scratch, "pth%d" % pi)
            os.makedirs(ddir, exist_ok=True)
            path = os.path.join(ddir, "%s.%s" % (stem, ext))
            mkdisc.write(path, bytes(img))
            ob = observe(dfs, path, total)
            x = dict(hdfs=False, aa2=False, start=6, flen0=False, spt18=False, totok=False, vols="none", lastok=True, cat0=True, total=total)
            return dict(ob, e="ident", id=300000 + pi, d=x, ext=ext, g="paths-%s-%d-%d" % (ext, nsec, total))
        pjobs2 = []
        for ext, nsec, total in (("ssd", 400, 400), ("ssd", 800, 600), ("sdd", 720, 400), ("sdd", 720, 700)):
            for where in (("", "game"), ("old.sdd.images", "game"), ("backups.dsd.d", "game"), ("", "game.dsd"), ("rel.ddd.dir", "game"), ("v1.2 with space", "game"),
                          ("discs.ssd", "game"), ("", "game.sdd.bak")):
                pjobs2.append((len(pjobs2), ext, nsec, total, where))
        events += common.pmap(path_case, pjobs2)
        # identification is per surface: a disc attached after another image file of a different variant (two --file options), or
        # lying on the second side of a two-sided image whose first side is of a different variant, is still what its own markers say
        by_variant = {}
        for i, c in enumerate(cases):
            x = c["d"]
            if x["cat0"] and x["lastok"] and x["total"] >= 400 and (x["vols"] in ("none", "valid")):
                by_variant.setdefault((x["hdfs"], x["aa2"], x["start"] == 2, x["vols"], x["spt18"] and x["totok"]), []).append(c)
        reps = [v[len(v) // 2] for k, v in sorted(by_variant.items())]

        def pair_case(args):
            pi, a, b, how = args
            pa, _ = realise(a, scratch, "pa%d" % pi)
            pb, ctb = realise(b, scratch, "pb%d" % pi)
            if pa is None or pb is None:
                return None
            if how == "files":
                ob = observe(dfs, pb, ctb, pre=[pa], drive="1")
                g = "after-file"
            else:
                da, db = open(pa, "rb").read(), open(pb, "rb").read()
                if len(da) != 1440 * 256 or len(db) != 1440 * 256:
                    return None
                pd = mkdisc.write(os.path.join(scratch, "pd%d.ddd" % pi), mkdisc.container_interleaved(da, db, 18))
                ob = observe(dfs, pd, ctb, pre=[], drive="1")
                os.unlink(pd)
                g = "side1"
            for p_ in (pa, pb):
                os.unlink(p_)
            return dict(ob, e="ident", id=200000 + pi, d=b["d"], ext=b["ext"], g="%s-%d" % (g, pi), first=a["d"])
        pjobs = []
        for a in reps:
            for b in reps:
                if a is not b:
                    for how in ("files", "sides"):
                        # (two-sided: the geometry of the whole file is chosen from side 0's catalogue, so side 0 has to be a disc
                        # whose catalogue total only the 80-track geometry can hold, or side 1 would be looked at with another one)
                        if how == "sides" and (a["d"]["vols"] != "none" or a["d"]["total"] <= 720):
                            continue
                        pjobs.append((len(pjobs), a, b, how))
        if tier == "quick":
            pjobs = [j for j in pjobs if j[0] % 3 == 0]
        pev = [e for e in common.pmap(pair_case, pjobs) if e is not None]
        events += pev
        chk.extra["surface_pairs"] = len(pev)
        for e in events:
            chk.case(json.dumps(e["d"], sort_keys=True), nontrivial=e["variant"] not in ("NONE",))
        chk.sample(events[0])
        chk.sample(events[len(events) // 2])
        trace = os.path.join(scratch, "trace.ndjson")
        with open(trace, "w") as f:
            for e in events:
                f.write(json.dumps(e) + "\n")
        ok, tr = common.validate_trace("TraceIdentify", "TraceIdentify.cfg", trace, timeout=1200)
        chk.add_tlc("TraceIdentify", tr)
        chk.traces += len(events)
        if not ok or not tr.verdicts:
            raise common.MachineryError("TraceIdentify did not consume the whole trace:\n" + tr.output[-3000:])
        for ln in sorted(tr.verdicts[-1]["bad"]):
            e = events[ln - 1]
            chk.violation("ident:" + e["variant"] + (":after-another-surface" if "first" in e else ""),
                          "disc with markers %r was treated as %s, geometry %dx%d for catalogue total %d, listing %s"
                          % (e["d"], e["variant"], e["cyl"], e["spt"], e["cattotal"], e["listing"]), dict(event=e))


def replay(chk, path):
    run(chk, "quick", 1)
