"""C07 - dfs fails cleanly on arbitrary image files and command lines.
Hostile.tla enumerates, per container parser, every combination of the relations between header-declared quantities and
the actual file (absent / zero / consistent / beyond EOF / maximal) and proves the file-driven track-list walk terminates;
Cli.tla enumerates option-token sequences x commands with the required outcome alphabet.  Every sampled combination is
built as a real file / argv and run through the ASan+UBSan build (and the pinned build with a peak-memory measurement),
with byte-level havoc of valid images on top; TraceCli.tla judges the outcome alphabet: return from main with 0/1/2,
a diagnostic whenever non-zero, no signal, sanitizer report, timeout or allocation out of proportion to the file."""
import os, json, random, struct, subprocess, shutil, re
import common, mkdisc, mkflux, discs


def u32(x):
    return struct.pack("<I", x & 0xFFFFFFFF)


def build_hostile(c, path_base, rnd):
    """Hostile.tla case -> file path"""
    k, h = c["kind"], c["h"]
    if k == "hxc":
        ntracks = h["tracks"]
        hdr = bytearray(19)
        hdr[0:7] = b"HXCMFM\0"
        hdr[7:9] = struct.pack("<H", ntracks)
        hdr[9] = h["sides"]
        hdr[10:12] = struct.pack("<H", 300)
        hdr[12:14] = struct.pack("<H", 250)
        hdr[14] = h["iface"]
        secs = {r: mkdisc.stamp(1, r) for r in range(18)}
        trk = mkflux.cells_to_bytes_msb(mkflux.build_track("MFM", 0, 0, secs).cells)
        body_off = 19 + 22
        listoff = {"0": 0, "18": 18, "19": 19, "eof": 19 + 22 + len(trk) + 50, "max": 0xFFFFFFFF}[h["listoff"]]
        hdr[15:19] = u32(listoff)
        tsize = {"0": 0, "ok": len(trk), "past-eof": len(trk) + 5000, "2^31": 0x80000000, "max": 0xFFFFFFFF}[h["tsize"]]
        toff = {"ok": body_off, "eof": body_off + len(trk) + 100, "max": 0xFFFFFFFF}[h["toff"]]
        last_t = (ntracks - 1) & 0xFFFF if h["term"] else 7
        last_s = (h["sides"] - 1) & 0xFF if h["term"] else 9
        recs = struct.pack("<HB", 0, 0) + u32(tsize) + u32(toff) + struct.pack("<HB", last_t, last_s) + u32(tsize) + u32(toff)
        full = bytes(hdr) + recs + trk
        data = {"0": b"", "6": full[:6], "18": full[:18], "hdr": full[:19], "list-cut": full[:19 + 11 + 4], "full": full}[h["len"]]
        p = path_base + ".mfm"
    elif k == "hfe":
        img = mkdisc.surface_dfs(20, 2, title=b"H", total=20)
        secs = {r: bytes(img[r * 256:(r + 1) * 256]) for r in range(10)}
        st = mkflux.hfe_side_stream(mkflux.build_track("FM", 0, 0, secs))
        if h["tail"] == "opcode":
            st = st[:-1] + bytes([mkflux.rev8(0xF2)])
        elif h["tail"] == "badop":
            st = st[:700] + bytes([mkflux.rev8(0xF7), 0]) + st[702:]
        n = (len(st) + 255) // 256 * 256
        s0 = st.ljust(n, b"\0")
        tdata = b"".join(s0[p:p + 256] + bytes(256) for p in range(0, n, 256))
        hdr = bytearray(b"\xff" * 512)
        hdr[0:8] = {"v1": b"HXCPICFE", "v3": b"HXCHFEV3", "bad": b"HXCPICFX"}[h["sig"]]
        hdr[8] = 0
        hdr[9] = h["tracks"]
        hdr[10] = h["sides"]
        hdr[11] = h["enc"]
        hdr[18:20] = struct.pack("<H", 1)
        lut = bytearray(b"\xff" * 512)
        off = {"ok": 2, "eof": 2 + len(tdata) // 512 + 10, "max": 0xFFFF}[h["toff"]]
        tl = {"0": 0, "ok": len(tdata), "odd": len(tdata) - 77, "max": 0xFFFF}[h["tlen"]]
        for t in range(min(h["tracks"], 128)):
            lut[4 * t:4 * t + 4] = struct.pack("<HH", off, tl)
        full = bytes(hdr) + bytes(lut) + tdata
        data = {"0": b"", "100": full[:100], "512": full[:512], "lut-cut": full[:512 + 3], "full": full}[h["len"]]
        p = path_base + ".hfe"
    elif k == "mmb":
        slot = bytes(mkdisc.surface_dfs(800, 3, title=b"M"))
        full = mkdisc.container_mmb({0: slot, 1: slot}, status={0: h["status"], 1: 0x0F, 2: h["status"]})
        data = {"0": b"", "100": full[:100], "8191": full[:8191], "8192": full[:8192], "slot-cut": full[:8192 + 300], "full": full}[h["len"]]
        p = path_base + ".mmb"
    else:
        n = h["nsec"]
        nbuild = max(n, 20) if h["opus"] != "none" else max(n, 4)
        img = mkdisc.blank_surface(max(nbuild, 1), 5)
        ents = [mkdisc.entry("A", length=256, start=3)] * (min(h["count"], 248) // 8)
        s0, s1 = mkdisc.catalog_fragment(b"HOSTILE", 1, 1, h["total"], ents[:31], count_byte=h["count"], byte6_extra=h["b6"])
        mkdisc.put(img, 0, s0)
        if nbuild > 1:
            mkdisc.put(img, 1, s1)
        if h["aa"] and nbuild > 2:
            img[512:520] = b"\xAA" * 8
        if h["opus"] != "none" and nbuild > 17:
            s16 = bytearray(256)
            s16[0] = 0x20
            tot = 720 if h["opus"] != "total-mismatch" else 1440
            s16[1], s16[2] = tot >> 8, tot & 255
            s16[3] = 10 if h["opus"] == "spt-10" else 18
            s16[4] = 40
            tracks = {"ok": [1, 20], "track>=cyl": [1, 200], "descending": [20, 1], "duplicate": [5, 5], "total-mismatch": [1, 20],
                      "vol-cat-bad": [1, 20], "spt-10": [1, 20]}[h["opus"]]
            s16[8], s16[10] = tracks
            mkdisc.put(img, 16, bytes(s16))
            if h["opus"] == "vol-cat-bad":
                img[3 * 256 + 5] = 3
        data = bytes(img[: n * 256])
        p = path_base + (".sdd" if h["opus"] != "none" else ".ssd")
    with open(p, "wb") as f:
        f.write(data)
    return p


OPT = {"file-ok": lambda f: ["--file", f["ok"]], "file-missing": lambda f: ["--file", f["missing"]], "file-noext": lambda f: ["--file", f["noext"]],
       "file-badext": lambda f: ["--file", f["badext"]], "file-garbage": lambda f: ["--file", f["garbage"]],
       "dir-ok": lambda f: ["--dir", "A"], "dir-long": lambda f: ["--dir", "AB"], "dir-empty": lambda f: ["--dir", ""],
       "drive-ok": lambda f: ["--drive", "0"], "drive-bad": lambda f: ["--drive", "x"], "drive-neg": lambda f: ["--drive", "-1"],
       "drive-huge": lambda f: ["--drive", "99999999999999999999"], "drive-junk": lambda f: ["--drive", "0junk"], "drive-vol": lambda f: ["--drive", "0A"],
       "first": lambda f: ["--drive-first"], "physical": lambda f: ["--drive-physical"], "show-config": lambda f: ["--show-config"],
       "verbose": lambda f: ["--verbose"], "ui-ok": lambda f: ["--ui", "watford"], "ui-bad": lambda f: ["--ui", "nosuch"], "help": lambda f: ["--help"],
       "unknown": lambda f: ["--nosuchoption"], "ambiguous": lambda f: ["--d", "0"], "abbrev": lambda f: ["--verb"]}
CMD = {"none": [], "nosuch": ["frobnicate"], "cat": ["cat"], "info-all": ["info", "#.*"], "info-noarg": ["info"], "info-badpat": ["info", "a.b.c.d"],
       "free": ["free"], "type-file": ["type", "A"], "type-noarg": ["type"], "type-missing": ["type", "NOSUCH"], "sector-map": ["sector-map"],
       "dump-sector-ok": ["dump-sector", "0", "1", "1"], "dump-sector-args": ["dump-sector", "0", "x", "1"], "dump-sector-range": ["dump-sector", "0", "99999", "-1"],
       "dump-sector-overflow": ["dump-sector", "0", "99999999999999999999", "0"], "dump-sector-negoverflow": ["dump-sector", "0", "1", "-99999999999999999999"],
       "cat-overflow": ["cat", "99999999999999999999"], "free-overflow": ["free", "340282366920938463463374607431768211456"],
       "cat-junk": ["cat", "0junk"], "free-junk": ["free", "zz"], "extract-noarg": ["extract-files"], "extract-emptydest": ["extract-files", ""],
       "extract-nodir": ["extract-files", "/nonexistent/dir"], "help-cmd": ["help", "cat"], "help-nosuch": ["help", "frobnicate"], "cat-nodrive": ["cat", "7"]}


def run_patient(argv, dfs_san, dfs_nd, timeout, **kw):
    """A run that does not come back within `timeout` is repeated once with the pinned build and six times the limit: the sanitizer
    build on a loaded machine can be slow without the program being at fault, and only a repeated failure to terminate is reported."""
    o = common.run(argv, timeout=timeout, **kw)
    if o.timed_out:
        o2 = common.run([dfs_nd if a == dfs_san else a for a in argv], timeout=6 * timeout, **kw)
        if not o2.timed_out:
            return o2
    return o


def run(chk, tier, seed):
    bsan = common.build("san")
    bnd = common.build("ndebug")
    dfs = common.exe(bsan, "dfs")
    dfs_nd = common.exe(bnd, "dfs")
    rnd = random.Random(seed)
    quick = tier == "quick"
    chk.rule = ("hostile files = sample of the 104k header-relation combinations of Hostile.tla (HxC MFM, HFE, MMB, sector dumps incl. Opus "
                "tables and 0..18-sector files) x commands x --verbose; command lines = sample of the 317k option/command sequences of "
                "Cli.tla; havoc = seeded byte flips / truncations / insertions of valid images of every container; evaluation = one run "
                "classified by outcome; non-trivial = run that gets past option parsing; distinct by (file class or argv, command)")
    chk.assumptions = ["memory safety and undefined behaviour are observed by ASan/UBSan and libstdc++ assertions, not decided by TLC: exploration level",
                       "allocation bound: peak RSS of the pinned build under 256 MiB for inputs under 4 MiB"]
    rh = common.tlc("Hostile", "Hostile.cfg", timeout=1800)
    chk.add_tlc("Hostile.cfg", rh)
    if rh.violated:
        chk.violation("model:hostile:" + rh.violated, "Hostile.tla: %s" % rh.violated, dict(spec="Hostile.tla"))
    rc_ = common.tlc("Cli", "Cli_small.cfg", timeout=1800)
    chk.add_tlc("Cli_small.cfg", rc_)
    if rc_.violated:
        chk.violation("model:cli:" + rc_.violated, "Cli.tla: %s\n%s" % (rc_.violated, "\n".join(rc_.cex[:30])), dict(spec="Cli.tla"))
    hostile = sorted({json.dumps(c, sort_keys=True): c for c in rh.cases}.values(), key=lambda c: json.dumps(c, sort_keys=True))
    clis = sorted({json.dumps(c, sort_keys=True): c for c in rc_.cases}.values(), key=lambda c: json.dumps(c, sort_keys=True))
    rnd.shuffle(hostile)
    rnd.shuffle(clis)
    by_kind = {}
    for c in hostile:
        by_kind.setdefault(c["kind"], []).append(c)
    nh = 260 if quick else 2000
    hsel = by_kind["hxc"][:nh] + by_kind["hfe"][:nh] + by_kind["dump"][:nh] + by_kind["mmb"]
    csel = clis[: (700 if quick else 8000)]
    # every command at least once after exactly one good --file (and with --verbose in front), whatever the sample holds
    have = {(tuple(c["opts"]), c["cmd"]) for c in csel}
    for c in clis:
        if tuple(c["opts"]) in (("file-ok",), ("verbose", "file-ok")) and (tuple(c["opts"]), c["cmd"]) not in have:
            csel.append(c)
    cmds = [["cat"], ["info", "#.*"], ["free"], ["space"], ["sector-map"], ["show-titles"], ["type", "A"], ["dump-sector", "0", "0", "1"],
            ["extract-unused", "{DEST}"], ["extract-files", "{DEST}"]]
    events = []
    with common.Scratch("c07") as scratch:
        dest = os.path.join(scratch, "dest")
        os.makedirs(dest)

        def classify(o, argv, label, extra=None):
            return dict(e="run", label=label, rc=o.rc if o.rc is not None else -9, timed_out=1 if o.timed_out else 0, signal=o.signal or 0,
                        san=1 if o.san else 0, errempty=0 if o.err.strip() else 1, argv=[a if len(a) < 60 else os.path.basename(a) for a in argv[1:]],
                        err=o.err.decode("latin1")[-300:], extra=extra or {})

        def do_h(ic):
            i, c = ic
            p = build_hostile(c, os.path.join(scratch, "h%d" % i), random.Random(i))
            evs = []
            sel = cmds if i % 4 == 0 else [cmds[i % len(cmds)], cmds[(i // 3) % len(cmds)]]
            for cmd in sel:
                for verbose in ([False, True] if i % 3 == 0 else [False]):
                    argv = [dfs] + (["--verbose"] if verbose else []) + ["--file", p] + [a.replace("{DEST}", dest) for a in cmd]
                    o = run_patient(argv, dfs, dfs_nd, 20)
                    evs.append(classify(o, argv, "hostile:" + c["kind"], dict(h=c["h"])))
            # peak memory in the pinned configuration
            if i % 2 == 0:
                try:
                    pr = subprocess.run(["/usr/bin/time", "-f", "MAXRSS=%M", dfs_nd, "--file", p, "cat"], stdout=subprocess.PIPE, stderr=subprocess.PIPE, timeout=30)
                    m = re.search(rb"MAXRSS=(\d+)", pr.stderr)
                    rss = int(m.group(1)) if m else 0
                except subprocess.TimeoutExpired:
                    rss = 999999999        # never came back: reported through the memory/termination bound
                evs.append(dict(e="mem", label="hostile:" + c["kind"], rss_kb=rss, size=os.path.getsize(p), extra=dict(h=c["h"])))
            os.unlink(p)
            return evs
        for evs in common.pmap(do_h, list(enumerate(hsel))):
            events += evs
        # TrackCheck.tla: CRC-valid flux whose decoded track is every sorted sector list of the model (wrong size code, wrong
        # cylinder/head, duplicate / missing / extra records), on track 1 of a 4-track image with 3 sectors per track
        rt = common.tlc("TrackCheck", "TrackCheck.cfg", timeout=1800)
        chk.add_tlc("TrackCheck.cfg", rt)
        if rt.violated:
            chk.violation("model:trackcheck:" + rt.violated, "TrackCheck.tla: %s\n%s" % (rt.violated, "\n".join(rt.cex[:20])), dict(spec="TrackCheck.tla"))
        tcs = sorted({json.dumps(c, sort_keys=True): c for c in rt.cases}.values(), key=lambda c: json.dumps(c, sort_keys=True))
        def n_wrong(c):
            return sum(1 for k, x in enumerate(c["secs"]) if x["size"] != 256 or x["cyl"] != 1 or x["head"] != 0)
        acc = [c for c in tcs if c["accept"]]
        # one sector wrong in an otherwise acceptable track: all of them, with every command
        near = [c for c in tcs if not c["accept"] and [x["rec"] for x in c["secs"]] == [0, 1, 2] and n_wrong(c) == 1]
        for c in acc + near:
            c["all_cmds"] = True
        rest = [c for c in tcs if not c["accept"] and not c.get("all_cmds")]
        rnd.shuffle(rest)
        tsel = acc + near + rest[: (100 if quick else 4000)]
        base_img = mkdisc.surface_dfs(12, 8, title=b"TC", total=12, entries=[mkdisc.entry("B", length=200, start=6), mkdisc.entry("A", length=700, start=3)])
        fcmds = [["cat"], ["type", "A"], ["dump", "A"], ["extract-files", "{DEST}"], ["sector-map"], ["dump-sector", "0", "1", "0"],
                 ["dump-sector", "0", "1", "1"], ["dump-sector", "0", "1", "2"], ["dump-sector", "0", "1", "3"], ["extract-unused", "{DEST}"]]

        def do_t(ic):
            i, c = ic
            fmt = ("hfe-FM", "hxc-MFM", "hfe-MFM")[i % 3]
            enc = fmt.split("-")[1]
            tracks = []
            for t in range(4):
                if t == 1:
                    tk = mkflux.Track(enc)
                    tk.gap(16 if enc == "FM" else 40)
                    for k, x in enumerate(c["secs"]):
                        code = {128: 0, 256: 1, 512: 2, 1024: 3}[x["size"]]
                        tk.field("id", x["rec"], 0xFE, bytes([x["cyl"], x["head"], x["rec"], code]))
                        tk.gap(11 if enc == "FM" else 22)
                        tk.field("data", x["rec"], 0xFB, (mkdisc.stamp(8, 3 + k) * 4)[:x["size"]])
                        tk.gap(10 if enc == "FM" else 24)
                    tk.gap(40 if enc == "FM" else 80)
                else:
                    tk = mkflux.build_track(enc, t, 0, {r: bytes(base_img[(3 * t + r) * 256:(3 * t + r + 1) * 256]) for r in range(3)})
                tracks.append(mkflux.hfe_side_stream(tk) if fmt.startswith("hfe") else mkflux.cells_to_bytes_msb(tk.cells))
            p = os.path.join(scratch, "tc%d.%s" % (i, "hfe" if fmt.startswith("hfe") else "mfm"))
            if fmt.startswith("hfe"):
                mkflux.write_hfe(p, [tracks], 4, enc)
            else:
                mkflux.write_hxcmfm(p, [tracks], 4)
            evs = []
            sel = fcmds if (c.get("all_cmds") or i % 5 == 0) else [fcmds[0], fcmds[1 + i % 9], fcmds[1 + (i // 9) % 9]]
            for cmd in sel:
                argv = [dfs] + (["--verbose"] if i % 4 == 0 else []) + ["--file", p] + [a.replace("{DEST}", dest) for a in cmd]
                o = run_patient(argv, dfs, dfs_nd, 30)
                e = classify(o, argv, "fluxsem:" + fmt, dict(secs=c["secs"], model_accepts=c["accept"]))
                if cmd == ["cat"]:          # the image as a whole is accepted iff the catalogue can be shown
                    e["extra"]["accepted"] = o.rc == 0
                evs.append(e)
            os.unlink(p)
            return evs
        nflux = 0
        for evs in common.pmap(do_t, list(enumerate(tsel))):
            events += evs
            nflux += 1
        chk.extra["fluxsem_images"] = nflux
        chk.extra["fluxsem_acceptance_differs_from_model"] = sum(1 for e in events if e["label"].startswith("fluxsem") and "accepted" in e["extra"]
                                                                 and e["extra"]["accepted"] != e["extra"]["model_accepts"])
        chk.extra["fluxsem_acceptance_examples"] = [dict(secs=e["extra"]["secs"], model=e["extra"]["model_accepts"], real=e["extra"]["accepted"], err=e["err"][-160:])
                                                     for e in events if e["label"].startswith("fluxsem") and "accepted" in e["extra"]
                                                     and e["extra"]["accepted"] != e["extra"]["model_accepts"]][:4]
        # MMB: every slot status x every command x every drive number the slot and its neighbours map to
        for st in (0x00, 0x0F, 0xF0, 0xFF, 0x55):
            slot = bytes(mkdisc.surface_dfs(800, 3, title=b"M", entries=[mkdisc.entry("A", length=300, start=5)]))
            pm = mkdisc.write(os.path.join(scratch, "st%02x.mmb" % st), mkdisc.container_mmb({0: slot, 1: slot, 2: slot}, status={0: 0x0F, 1: st, 2: 0x00, 3: st}))
            jobs = []
            for drv in ("0", "2", "4", "6", "8"):
                for cmd in (["cat", drv], ["dump-sector", drv, "0", "0"], ["dump-sector", drv, "0", "1"], ["dump-sector", drv, "79", "9"], ["dump-sector", drv, "80", "0"],
                            ["free", drv], ["--drive", drv, "type", "A"], ["--drive", drv, "sector-map"], ["--drive", drv, "extract-unused", dest],
                            ["--drive", drv, "space"], ["--drive", drv, "info", "#.*"]):
                    jobs.append([dfs, "--file", pm] + cmd)
            jobs.append([dfs, "--file", pm, "show-titles"])
            jobs.append([dfs, "--file", pm, "--show-config", "cat"])
            for o, argv in zip(common.pmap(lambda a: run_patient(a, dfs, dfs_nd, 30), jobs), jobs):
                events.append(classify(o, argv, "mmbslot", dict(status=st)))
        # standard output that cannot be written (/dev/full, closed): the outcome alphabet still holds - in particular a failure
        # status comes with a diagnostic, whichever command noticed and however much it had to write
        big = discs.build("DFS", [mkdisc.entry("BIG", length=20000, start=100)] + [mkdisc.entry("F%02d" % i_, length=10, start=45 - i_) for i_ in range(30)],
                          scratch, "bigout", nsectors=800, salt=6, title=b"BIGOUT")
        ojobs = []
        for cmd in (["cat"], ["info", "#.*"], ["type", "BIG"], ["type", "F01"], ["dump", "BIG"], ["list", "BIG"], ["sector-map"], ["space"], ["free"], ["show-titles"],
                    ["help"], ["help", "cat"], ["dump-sector", "0", "1", "1"], ["--show-config", "cat"]):
            for how in ("full", "closed"):
                ojobs.append((cmd, how))

        def do_o(job):
            cmd, how = job
            argv = [dfs, "--file", big.path] + cmd
            if how == "full":
                with open("/dev/full", "wb") as fo:
                    o = common.run(argv, timeout=30, stdout=fo)
            else:
                o = common.run(["sh", "-c", 'exec "$@" >&-', "sh"] + argv, timeout=30)
            return classify(o, argv, "stdout-" + how, dict(cmd=cmd))
        events += common.pmap(do_o, ojobs)
        # command lines
        okimg = discs.build("DFS", [mkdisc.entry("A", length=300, start=5)], scratch, "ok", nsectors=400, salt=3, title=b"OKIMG")
        files = dict(ok=okimg.path, missing=os.path.join(scratch, "missing.ssd"), noext=os.path.join(scratch, "noext"),
                     badext=os.path.join(scratch, "bad.xyz"), garbage=os.path.join(scratch, "garbage.ssd"))
        open(files["noext"], "wb").write(bytes(okimg.img))
        open(files["badext"], "wb").write(bytes(okimg.img))
        open(files["garbage"], "wb").write(bytes(rnd.getrandbits(8) for _ in range(5000)))

        def do_c(c):
            argv = [dfs]
            for t in c["opts"]:
                argv += OPT[t](files)
            argv += CMD[c["cmd"]]
            o = run_patient(argv, dfs, dfs_nd, 30, cwd=scratch)
            e = classify(o, argv, "cli", dict(opts=c["opts"], cmd=c["cmd"], predicted=c["exit"]))
            return e
        events += common.pmap(do_c, csel)
        # several image files in one run (state kept from one drive to the next): every pair from {disc with files, blank disc,
        # Watford disc with an empty first catalogue, Opus disc} x commands that take several drives
        blank = discs.build("DFS", [], scratch, "blank", nsectors=800, salt=4, title=b"BLANK")
        wat = discs.build("WDFS", [mkdisc.entry("W", length=300, start=9)], scratch, "wat0", nsectors=400, salt=4, split=0, title=b"WAT")
        opu = discs.build("OPUS", [mkdisc.entry("A", length=300, start=9)], scratch, "opu", salt=5, opus_letter="B")
        wat2 = discs.build("WDFS", [mkdisc.entry("V", length=300, start=9), mkdisc.entry("U", length=30, start=5)], scratch, "wat2", nsectors=400, salt=4, split=2, title=b"WAT2")
        pool = [okimg.path, blank.path, wat.path, opu.path, wat2.path]
        mjobs = []
        for a in pool:
            for b in pool:
                for cmd in (["space", "0", "1"], ["space", "1", "0"], ["space", "1"], ["free", "1"], ["show-titles", "0", "1"], ["show-titles", "1", "0"],
                            ["sector-map", "1"], ["cat", "1"], ["info", ":1.#.*"], ["extract-unused", "--drive", "1", dest] if False else ["--drive", "1", "extract-unused", dest]):
                    pre = [x for x in cmd if x.startswith("--") or x == "1" and cmd[0] == "--drive"][:2] if cmd[0] == "--drive" else []
                    argv = [dfs, "--drive-first", "--file", a, "--file", b] + cmd
                    mjobs.append(argv)
        for o, argv in zip(common.pmap(lambda a_: run_patient(a_, dfs, dfs_nd, 30), mjobs), mjobs):
            events.append(classify(o, argv, "multi-drive", dict(files=[os.path.basename(x) for x in argv[3:6:2]])))
        # havoc
        corpus = [okimg.path]
        d2 = discs.build("WDFS", [mkdisc.entry("A", length=300, start=9), mkdisc.entry("B", length=10, start=5)], scratch, "w", nsectors=400, salt=4, split=1)
        d3 = discs.build("OPUS", [mkdisc.entry("A", length=300, start=9)], scratch, "o", salt=5, opus_letter="B")
        corpus += [d2.path, d3.path]
        corpus.append(mkflux.image_to_flux(bytes(okimg.img), 40, 10, "FM", "hfe", os.path.join(scratch, "v.hfe")))
        corpus.append(mkflux.image_to_flux(bytes(okimg.img), 40, 10, "FM", "hfe", os.path.join(scratch, "v3.hfe"), version=3,
                                           ops=lambda t, s, n: [(5, "nop", 0), (300, "setbitrate", 72)]))
        img720 = mkdisc.surface_dfs(720, 6, title=b"M", entries=[mkdisc.entry("A", length=300, start=9)])
        corpus.append(mkflux.image_to_flux(bytes(img720), 40, 18, "MFM", "mfm", os.path.join(scratch, "v.mfm")))
        corpus.append(mkdisc.write(os.path.join(scratch, "v.dsd"), mkdisc.container_interleaved(okimg.img, okimg.img, 10)))
        corpus.append(mkdisc.write(os.path.join(scratch, "v.mmb"), mkdisc.container_mmb({0: bytes(mkdisc.surface_dfs(800, 7, title=b"S0"))})))
        import gzip as gz
        corpus.append(mkdisc.write(os.path.join(scratch, "vz.ssd.gz"), gz.compress(bytes(okimg.img))))
        nhav = 250 if quick else 3000

        def do_v(i):
            rr = random.Random(seed * 31 + i)
            src = corpus[i % len(corpus)]
            data = bytearray(open(src, "rb").read())
            kind = rr.choice(["flip", "flip", "trunc", "insert", "zero", "header"])
            if kind == "flip":
                for _ in range(rr.randint(1, 8)):
                    data[rr.randrange(len(data))] = rr.getrandbits(8)
            elif kind == "trunc":
                data = data[: rr.randrange(len(data))]
            elif kind == "insert":
                p0 = rr.randrange(len(data))
                data[p0:p0] = bytes(rr.getrandbits(8) for _ in range(rr.randint(1, 600)))
            elif kind == "zero":
                p0 = rr.randrange(len(data))
                data[p0:p0 + rr.randint(1, 5000)] = bytes(min(5000, len(data) - p0))
            else:
                for _ in range(rr.randint(1, 6)):
                    data[rr.randrange(min(len(data), 600))] = rr.choice([0, 1, 0x7F, 0x80, 0xFF, rr.getrandbits(8)])
            ext = src[src.index(".", len(scratch)):]
            p = os.path.join(scratch, "hv%d%s" % (i, ext))
            open(p, "wb").write(bytes(data))
            evs = []
            for cmd in (cmds[i % len(cmds)], cmds[(i // 7) % len(cmds)], ["cat"]):
                argv = [dfs] + (["--verbose"] if i % 5 == 0 else []) + ["--file", p] + [a.replace("{DEST}", dest) for a in cmd]
                o = run_patient(argv, dfs, dfs_nd, 30)
                evs.append(classify(o, argv, "havoc:" + ext.lstrip("."), dict(kind=kind, src=os.path.basename(src), i=i)))
            os.unlink(p)
            return evs
        for evs in common.pmap(do_v, list(range(nhav))):
            events += evs
        drift = 0
        for e in events:
            if e["e"] == "run":
                chk.case((e["label"], tuple(e["argv"][-4:]), json.dumps(e["extra"], sort_keys=True)[:300]), nontrivial=e["rc"] != -9)
                if e["label"] == "cli" and e["rc"] != e["extra"]["predicted"]:
                    drift += 1
            else:
                chk.case(("mem", json.dumps(e["extra"], sort_keys=True)))
        chk.drift = drift
        chk.sample(events[0])
        chk.sample(next(e for e in events if e["label"] == "cli"))
        trace = os.path.join(scratch, "trace.ndjson")
        with open(trace, "w") as f:
            for e in events:
                f.write(json.dumps(common.no_nulls(e)) + "\n")
        ok, tr = common.validate_trace("TraceCli", "TraceCli.cfg", trace, timeout=1800)
        chk.add_tlc("TraceCli", tr)
        chk.traces += len(events)
        if not ok or not tr.verdicts:
            raise common.MachineryError("TraceCli did not consume the whole trace:\n" + tr.output[-3000:])
        for ln in sorted(tr.verdicts[-1]["bad"]):
            e = events[ln - 1]
            if e["e"] == "mem":
                chk.violation("%s:memory" % e["label"], "peak RSS %d KiB for a %d-byte file; header %r" % (e["rss_kb"], e["size"], e["extra"]), dict(event=e))
                continue
            how = "timeout" if e["timed_out"] else ("signal%d" % e["signal"] if e["signal"] else ("sanitizer" if e["san"] else ("silent" if e["errempty"] else "status%s" % e["rc"])))
            top = ""
            m = re.search(r"(SUMMARY: \w+: [^\n]*|runtime error: [^\n]*|terminate called[^\n]*|Assertion[^\n]*)", e["err"])
            if m:
                top = m.group(1)
            cmdname = next((a for a in e["argv"] if a in ("cat", "info", "free", "space", "sector-map", "show-titles", "type", "dump-sector", "extract-unused", "extract-files", "help")), "?")
            chk.violation("%s:%s:%s" % (e["label"], how, cmdname if how in ("silent",) else re.sub(r"0x[0-9a-f]+|\d+", "N", top)[:60]),
                          "dfs %s -> %s (rc=%s) %s\n    stderr tail: %r\n    case: %s" % (" ".join(e["argv"]), how, e["rc"], top, e["err"][-200:], json.dumps(e["extra"])[:400]),
                          dict(event=e))
        chk.extra["hostile_files"] = len(hsel)
        chk.extra["command_lines"] = len(csel)
        chk.extra["havoc_files"] = nhav


def replay(chk, path):
    run(chk, "quick", 1)
