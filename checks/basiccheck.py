"""Shared by C03, C08, C09: program generators, runners and the TraceBasic judge for bbcbasic_to_text."""
import os, sys, json, random, itertools, subprocess
import common
sys.path.insert(0, os.path.join(common.VERIF, "tools"))
import gen_tokens

BE = ["6502", "32000", "PDP11", "ARM", "Mac"]
LE = ["Z80", "8086", "Windows", "SDL", "MacOSX"]
ALL = BE + LE
CANON = {"32000": "6502", "8086": "Z80", "SDL": "Windows", "MacOSX": "Windows"}


def gen_random_programs(tabs, rnd, quick):
    """Seeded random well-formed programs: many lines, each a random mixture of keyword tokens (incl. two-byte extension tokens), line-number
    references, ASCII, and strings holding arbitrary bytes; loops kept properly nested so that the requirement fixes the indentation."""
    n = 150 if quick else 3000
    for i in range(n):
        d = ALL[i % len(ALL)]
        tab = tabs[CANON.get(d, d)]
        kws = [b for b in range(1, 256) if tab["base"][b][0] == "kw" and tab["base"][b][1] not in ("FOR", "NEXT", "REPEAT", "UNTIL")]
        ext = [(intro, b) for intro, which in ((0xC6, "c6"), (0xC7, "c7"), (0xC8, "c8")) if tab["base"][intro][0] == which
               for b in range(256) if tab[which][b][0] == "kw"]
        kF, kN, kR, kU = (kwbyte(tab, k) for k in ("FOR", "NEXT", "REPEAT", "UNTIL"))
        lines, depth, num = [], [], 0
        for _ in range(rnd.randint(1, 40)):
            num += rnd.randint(1, 400)
            body = []
            for _ in range(rnd.randint(0, 12)):
                k = rnd.randrange(9)
                if k == 0 and len(body) < 200:
                    body += [34] + [rnd.choice([x for x in range(1, 256) if x != 34]) for _ in range(rnd.randint(0, 8))] + [34]
                elif k == 1:
                    body += list(enc_target(rnd.randrange(65536)))
                elif k == 2 and ext:
                    body += list(rnd.choice(ext))
                elif k == 3 and len(depth) < 12:
                    t_ = rnd.choice("FR")
                    depth.append(t_)
                    body += [kF if t_ == "F" else kR, 73]
                elif k == 4 and depth:
                    t_ = depth.pop()
                    body += [kN if t_ == "F" else kU, 73]
                elif k in (5, 6):
                    body.append(rnd.choice(kws))
                else:
                    body.append(rnd.choice([32, 58, 61, 44, 65 + rnd.randrange(26), 48 + rnd.randrange(10)]))
            if len(body) > 240:
                body = body[:0]
            lines.append((min(num, 65279), body))
        yield ("rand-%d" % i, d, rnd.randrange(8), prog(d, lines))


def tables():
    tabs, alias = gen_tokens.emit(os.path.join(common.SPEC, "BasicTokens.tla"))
    return tabs


def is_le(d):
    return d in LE


def prog(d, lines, end=True):
    """lines: [(number, body bytes)] -> file bytes in the dialect's framing."""
    out = bytearray()
    if is_le(d):
        for num, body in lines:
            out += bytes([len(body) + 4, num & 255, num >> 8]) + bytes(body) + b"\r"
        if end:
            out += b"\x00\xff\xff"
    else:
        for num, body in lines:
            out += bytes([13, num >> 8, num & 255, len(body) + 4]) + bytes(body)
        if end:
            out += b"\r\xff"
    return bytes(out)


def enc_target(n):
    b1 = (((n & 0xC0) >> 2) | ((n & 0xC000) >> 12)) ^ 0x54
    return bytes([0x8D, b1, (n & 0x3F) | 0x40, ((n >> 8) & 0x3F) | 0x40])


def kwbyte(tab, text):
    for b in range(256):
        if tab["base"][b] == ("kw", text):
            return b
    return None


# ------------------------------------------------------------------ generators: (label, dialect, listo, bytes)

def gen_tokens_sweep(tabs, quick):
    """every byte as a token in every dialect; every extension pair"""
    for d in ALL:
        tab = tabs[CANON.get(d, d)]
        okb = [b for b in range(1, 256) if tab["base"][b][0] in ("kw", "self") and b != 34]
        # one program with a line per harmless byte (keeps the run count low), LISTO 0 so loop tokens do not indent
        yield ("tok-all", d, 0, prog(d, [(10 * i + 10, [65, b, 66]) for i, b in enumerate(okb)]))
        # ... the same bytes as the last byte of their line, and after each of C6/C7/C8 where this dialect name treats that byte as
        # an ordinary keyword (a name wired to another dialect's table shows in exactly these places)
        yield ("tok-all-eol", d, 0, prog(d, [(10 * i + 10, [65, b]) for i, b in enumerate(okb)]))
        for intro in (0xC6, 0xC7, 0xC8):
            if tab["base"][intro][0] in ("kw", "self"):
                yield ("plain-%02x-pairs" % intro, d, 0, prog(d, [(10 * i + 10, [intro, b, 58]) for i, b in enumerate(okb)]))
        for b in range(1, 256):
            if b not in okb:
                yield ("tok-%02x" % b, d, 7, prog(d, [(10, [65, b, 66]), (20, [67])]))
                yield ("tok-%02x-eol" % b, d, 7, prog(d, [(10, [65, b])]))
        for intro, which in ((0xC6, "c6"), (0xC7, "c7"), (0xC8, "c8")):
            if tab["base"][intro][0] in ("c6", "c7", "c8", "pdp"):
                good = [b for b in range(256) if tab[which][b][0] == "kw"] if tab["base"][intro][0] != "pdp" else []
                if good:
                    yield ("ext-%02x-all" % intro, d, 0, prog(d, [(10 + i, [intro, b, 58]) for i, b in enumerate(good)]))
                step = 1 if not quick else 5
                for b in range(0, 256, step):
                    if b not in good and b != 0:
                        yield ("ext-%02x-%02x" % (intro, b), d, 7, prog(d, [(10, [58, intro, b, 58])]))


def gen_linenums(quick):
    step = 13 if quick else 1
    targets = list(range(0, 65536, step)) + [65535, 32767, 32768, 255, 256, 16383, 16384]
    for d in ("6502", "Z80", "ARM"):
        for p in range(0, len(targets), 1500):
            chunk = targets[p:p + 1500]
            lines = []
            for q in range(0, len(chunk), 40):
                body = bytearray([0xE5])       # GOTO
                for n in chunk[q:q + 40]:
                    body += enc_target(n) + b","
                lines.append((10 + q // 40, body))
            yield ("goto-%d" % p, d, 1, prog(d, lines))
        if quick and d != "6502":
            continue
    # non-canonical first bytes and references cut by end of line
    for d in ("6502", "Windows"):
        for b1 in range(0, 256, 7 if quick else 1):
            yield ("goto-b1-%02x" % b1, d, 0, prog(d, [(10, [0xE5, 0x8D, b1, 0x41, 0x7F, 58])]))
        for cut in (1, 2, 3):
            yield ("goto-cut%d" % cut, d, 7, prog(d, [(10, [0xE5] + list(enc_target(1000))[:cut])]))
    for d in ALL:
        nums = [0, 1, 9, 10, 99, 100, 999, 1000, 9999, 10000, 32767, 32768, 65279] + ([65535, 65280] if is_le(d) else [])
        yield ("hdr-nums", d, 1, prog(d, [(n, [0xF1, 32, 65]) for n in nums]))
        yield ("hdr-nums0", d, 0, prog(d, [(n, [0xF1, 32, 65]) for n in nums]))


def gen_listo(tabs, quick):
    seqs = []
    F, N, R, U = "FOR", "NEXT", "REPEAT", "UNTIL"
    base = [[F, "x", N], [R, "x", U], [F, F, "x", N, N], [F, R, "x", U, N], [F, "x", N, N], [N, F], [F + F, "x", N + N], [F + N, "x"],
            [R + F, "x", N + U], ["x", F, "x", "x", N, "x"], [U, R, "x"], [F, 'q' + F, "x", N], [F, "Q", "x", N]]
    for d in ("6502", "Z80", "ARM", "Windows", "PDP11", "Mac"):
        tab = tabs[CANON.get(d, d)]
        kb = {k: kwbyte(tab, k) for k in (F, N, R, U)}
        for si, sq in enumerate(base):
            lines = []
            for i, item in enumerate(sq):
                body = bytearray()
                rest = item
                while rest:
                    for k in (F, N, R, U):
                        if rest.startswith(k):
                            body += bytes([kb[k], 73, 58])
                            rest = rest[len(k):]
                            break
                    else:
                        c = rest[0]
                        rest = rest[1:]
                        if c == "x":
                            body += bytes([0xF1, 65])
                        elif c == "q":      # loop token bytes inside a string (Mode 7 graphics codes)
                            body += bytes([0xF1, 34, kb[F], kb[F], kb[U], 34, 58])
                        elif c == "Q":      # a string that ends with the line (unterminated) containing loop bytes
                            body += bytes([0xF1, 34, kb[N], kb[N]])
                lines.append((10 * (i + 1), body))
            for listo in range(8):
                if quick and d not in ("6502", "Z80") and listo not in (0, 7, 2, 4):
                    continue
                yield ("listo-%d-%d" % (si, listo), d, listo, prog(d, lines))


def gen_strings(quick):
    for d in ("6502", "Z80", "ARM", "Windows"):
        for lo in range(1, 256, 50):
            chunk = [b for b in range(lo, min(lo + 50, 256)) if b != 34]
            yield ("str-%d" % lo, d, 7, prog(d, [(10, [0xF1, 34] + chunk + [34]), (20, [0xF1, 34, 34, 34, 65, 34]), (30, [0xF4, 34, 0x80])]))
        yield ("str-open", d, 7, prog(d, [(10, [0xF1, 34, 0x80, 0x8D, 0xC6]), (20, [0x80])]))
        # a NUL byte is never part of a program, not even inside a string: rejected, in every build configuration
        yield ("str-nul", d, 7, prog(d, [(10, [0xF1, 34, 65, 0, 66, 34]), (20, [0xF1, 34, 67, 34])]))
        yield ("nul-outside", d, 7, prog(d, [(10, [0xF1, 65, 0, 66]), (20, [0xF1, 34, 67, 34])]))
    for d in ("6502", "Z80"):
        for n in list(range(0, 252, 1 if not quick else 9)) + [250, 251]:
            if n <= 251:
                yield ("len-%d" % n, d, 1, prog(d, [(10, [65 + (i % 26) for i in range(n)]), (20, [66])]))


def gen_hostile(rnd, quick):
    n = 300 if quick else 4000
    for i in range(n):
        d = ALL[i % len(ALL)]
        ln = rnd.choice([1, 2, 3, 4, 5, 8, 16, 40, 300, 2000])
        kind = i % 4
        if kind == 0:
            data = bytes(rnd.getrandbits(8) for _ in range(ln))
        elif kind == 1:     # mutated valid
            p = bytearray(prog(d, [(10, [0xF1, 34, 65, 34]), (20, [0xE3, 73, 58, 0xED]), (30, list(enc_target(10)))]))
            for _ in range(rnd.randint(1, 3)):
                p[rnd.randrange(len(p))] = rnd.getrandbits(8)
            data = bytes(p)
        elif kind == 2:     # length byte sweeps against the remaining length
            L = rnd.randrange(256)
            tail = bytes(65 for _ in range(rnd.choice([0, 1, L // 2, max(0, L - 5), max(0, L - 4), max(0, L - 3), L, L + 3])))
            data = (bytes([L, 10, 0]) + tail) if is_le(d) else (bytes([13, 0, 10, L]) + tail)
        else:
            data = prog(d, [(10, [rnd.getrandbits(8) or 1 for _ in range(rnd.randint(0, 30))])])
        yield ("hostile-%d" % i, d, rnd.randrange(8), data)
    # quantities that accumulate over the whole program rather than one line: loop depth (indentation is 2 columns per open loop and
    # has no bound), long runs of outdents, the longest lines, many lines
    tabs = tables()
    for d in ("6502", "Z80", "ARM", "Windows", "PDP11"):
        tab = tabs[CANON.get(d, d)]
        kF, kN, kR, kU = (kwbyte(tab, k) for k in ("FOR", "NEXT", "REPEAT", "UNTIL"))
        deep = {"for-200-lines": [(i + 1, [kF, 73]) for i in range(200)] + [(300, [0xF1, 65])],
                "for-40-per-line": [(i + 1, [kF] * 40) for i in range(8)] + [(300, [0xF1, 65])],
                "repeat-250-per-line": [(i + 1, [kR] * 250) for i in range(2)] + [(300, [0xF1, 65])],
                "next-250-per-line": [(i + 1, [kN] * 250) for i in range(2)] + [(300, [0xF1, 65])],
                "up-and-down": [(i + 1, [kF] * 100) for i in range(2)] + [(100 + i, [kN] * 120) for i in range(2)] + [(300, [kU] * 250)],
                "many-lines": [(i % 65280, [0xF1]) for i in range(400)]}
        for name, lines in deep.items():
            for listo in ((7, 0, 2, 4) if not quick else (7, 2)):
                yield ("hostile-deep-%s" % name, d, listo, prog(d, lines))


# ------------------------------------------------------------------ running

def run_one(exe, d, listo, data, scratch, tag, stdin=False, extra_files=None, timeout=20):
    path = os.path.join(scratch, tag + ".bbc")
    with open(path, "wb") as f:
        f.write(data)
    argv = [exe, "--dialect", d, "--listo", str(listo)]
    if stdin:
        o = common.run(argv + ["-"], stdin=data, timeout=timeout)
    else:
        o = common.run(argv + [path] + (extra_files or []), timeout=timeout)
    os.unlink(path)
    return o


def ev_run(label, d, listo, data, o):
    if len(o.out) > 8 * 1024 * 1024:
        # more output than any input here can legitimately produce (the run was stopped by the output limit): keep a sample only
        return dict(e="run", label=label, dialect=d, listo=listo, inp=list(data), rc=o.rc if o.rc is not None else -9,
                    out=list(o.out[:2048]), errempty=0 if o.err.strip() else 1, clean=0)
    return dict(e="run", label=label, dialect=d, listo=listo, inp=list(data), rc=o.rc if o.rc is not None else -9,
                out=list(o.out), errempty=0 if o.err.strip() else 1, clean=1 if o.ok_alphabet((0, 1)) else 0)


def judge(chk, events, scratch, describe=None):
    trace = os.path.join(scratch, "trace.ndjson")
    with open(trace, "w") as f:
        for e in events:
            f.write(json.dumps(e) + "\n")
    ok, tr = common.validate_trace("TraceBasic", "TraceBasic.cfg", trace, timeout=3000)
    chk.add_tlc("TraceBasic", tr)
    if not ok or not tr.verdicts:
        raise common.MachineryError("TraceBasic did not consume the whole trace:\n" + tr.output[-3000:])
    for ln in sorted(tr.verdicts[-1]["bad"]):
        e = events[ln - 1]
        if describe:
            sig, text = describe(e)
        else:
            sig = "%s:%s" % (e["e"], e.get("label", "").split("-")[0])
            text = "%s %s dialect=%s listo=%s: rc=%s stderr_empty=%s input=%s output=%r" % (
                e["e"], e.get("label"), e.get("dialect"), e.get("listo"), e.get("rc"), e.get("errempty"),
                bytes(e.get("inp", []))[:80].hex(), bytes(e.get("out", e.get("out_cut", [])))[:200])
        chk.violation(sig, text, dict(event={k: (v if not isinstance(v, list) or len(v) < 400 else v[:400]) for k, v in e.items()}))
    return tr


def model_check(chk, cfgs):
    for c in cfgs:
        r = common.tlc("Basic", c, timeout=3000)
        chk.add_tlc(c, r)
        if r.violated:
            chk.violation("model:%s:%s" % (c, r.violated), "Basic.tla (%s): reader model violates %s\n%s" % (c, r.violated, "\n".join(r.cex[:40])),
                          dict(spec="Basic.tla", cfg=c))
