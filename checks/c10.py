"""C10 - gzip compression of an image file is transparent.
Gzip.tla: TLC checks the nested inflate loop of img_gzfile.cc over an abstract zlib (termination under fairness,
rejection of truncated/corrupt streams, complete output of every member) for every member structure, truncation point and
corrupted unit within the constants; Identify.tla's candidate list shows name hints do not depend on the .gz suffix.  A corpus of
images of every container type (incl. those whose geometry depends on the name hints) is compressed at several levels
with padded headers (sizes around multiples of the 512/1024-byte buffers) and every command is compared between X and
X.gz; every truncation and single-bit corruption of a small .gz must be rejected or harmless; TraceGzip.tla judges."""
import os, json, random, zlib, struct, shutil
import common, mkdisc, mkflux, discs, readtrace


def gz_bytes(data, level=6, fname=None, members=1):
    """RFC 1952 writer (own implementation: header flags, optional FNAME padding, multi-member)."""
    out = bytearray()
    n = len(data)
    cuts = [n * i // members for i in range(members + 1)]
    for m in range(members):
        part = data[cuts[m]:cuts[m + 1]]
        flg = 8 if fname else 0
        out += bytes([0x1F, 0x8B, 8, flg, 0, 0, 0, 0, 0, 3])
        if fname:
            out += fname + b"\0"
        co = zlib.compressobj(level, zlib.DEFLATED, -15)
        out += co.compress(part) + co.flush()
        out += struct.pack("<II", zlib.crc32(part) & 0xFFFFFFFF, len(part) & 0xFFFFFFFF)
    return bytes(out)


def corpus(scratch, rnd):
    """(tag, path, commands)"""
    items = []
    E = mkdisc.entry

    def files(n):
        return [E("A", length=700, start=n - 10), E("B", "D", True, 0x31900, 0x8023, 256, n - 20), E("EMPTY", length=0, start=5)]
    base_cmds = [["cat"], ["info", "#.*"], ["free"], ["space"], ["sector-map"], ["type", "--binary", "A"], ["dump", "D.B"], ["show-titles"],
                 ["dump-sector", "0", "1", "3"], ["cat", "1"], ["type", "NOSUCH"]]
    for n, ext in ((400, "ssd"), (800, "ssd"), (720, "sdd"), (1440, "sdd"), (630, "sdd")):
        d = discs.build("DFS", files(min(n, 1023)), scratch, "c%d%s" % (n, ext), nsectors=n, total=min(n, 1023), salt=n % 200, ext=ext, title=b"GZ%d" % n)
        items.append(("dfs-%d-%s" % (n, ext), d.path, base_cmds))
    # geometry depends on the name hints: catalogue totals that several encodings could hold
    for total, n, ext in ((340, 630, "sdd"), (350, 400, "ssd"), (401, 800, "ssd"), (630, 720, "sdd"), (640, 720, "sdd"), (700, 800, "ssd"), (721, 1440, "sdd"), (400, 720, "sdd")):
        d = discs.build("DFS", files(min(total, n) - 30), scratch, "h%d-%d" % (total, n), nsectors=n, total=total, salt=7, ext=ext, title=b"HINT%d" % total)
        items.append(("hint-%d-%d-%s" % (total, n, ext), d.path, [["cat"], ["info", "#.*"], ["dump-sector", "0", "2", "1"], ["free"]]))
    d = discs.build("WDFS", files(790), scratch, "wat", nsectors=800, salt=9, split=2, title=b"GZWAT")
    items.append(("wdfs", d.path, base_cmds))
    d = discs.build("OPUS", [E("A", length=700, start=20), E("B", "D", True, 0, 0, 256, 5)], scratch, "opus", salt=11, opus_letter="B", title=b"GZOPUS")
    items.append(("opus", d.path, [["cat", "0B"], ["info", ":0B.#.*"], ["show-titles"], ["type", "--binary", ":0B.$.A"], ["free", "0A"], ["sector-map"]]))
    # two-sided interleaved
    s0 = mkdisc.surface_dfs(400, 21, title=b"SIDE0", entries=files(400))
    s1 = mkdisc.surface_dfs(400, 22, title=b"SIDE1", entries=files(390))
    p = mkdisc.write(os.path.join(scratch, "two.dsd"), mkdisc.container_interleaved(s0, s1, 10))
    items.append(("dsd", p, [["cat", "0"], ["cat", "2"], ["type", "--binary", ":2.$.A"], ["show-titles"], ["dump-sector", "2", "39", "9"]]))
    s0 = mkdisc.surface_dfs(720, 23, title=b"DSIDE0", entries=files(720))
    s1 = mkdisc.surface_dfs(720, 24, title=b"DSIDE1", entries=files(700))
    p = mkdisc.write(os.path.join(scratch, "two.ddd"), mkdisc.container_interleaved(s0, s1, 18))
    items.append(("ddd", p, [["cat", "0"], ["cat", "2"], ["type", "--binary", ":2.$.A"], ["show-titles"]]))
    # mmb (3 slots)
    slots = {i: bytes(mkdisc.surface_dfs(800, 30 + i, title=b"SLOT%d" % i, entries=files(800))) for i in (0, 1, 2)}
    p = mkdisc.write(os.path.join(scratch, "m.mmb"), mkdisc.container_mmb(slots))
    items.append(("mmb", p, [["cat", "0"], ["cat", "2"], ["cat", "6"], ["type", "--binary", ":4.$.A"], ["show-titles", "0", "2", "4"]]))
    # drive numbers with two digits (7 slots: drives 0, 2, .. 12 under the physical policy), in commands that take several drives
    slots = {i: bytes(mkdisc.surface_dfs(800, 50 + i, title=b"SEVEN%d" % i, entries=files(800 - 10 * i))) for i in range(7)}
    p = mkdisc.write(os.path.join(scratch, "m7.mmb"), mkdisc.container_mmb(slots))
    items.append(("mmb-7", p, [["space", "2", "10"], ["space", "12", "0", "10"], ["free", "10"], ["cat", "12"], ["show-titles", "10", "12", "2"],
                               ["type", "--binary", ":10.$.A"], ["sector-map", "12"], ["info", ":12.#.*"]]))
    # the largest container there is: all 511 slots (8192 + 511 * 204800 bytes), first and last slot formatted
    slots = {i: bytes(mkdisc.surface_dfs(800, 33, title=b"SLOT%d" % i, entries=files(800))) for i in (0, 510)}
    p = mkdisc.write(os.path.join(scratch, "full.mmb"), mkdisc.container_mmb(slots, nslots_physical=511))
    items.append(("mmb-full", p, [["cat", "0"], ["cat", "1020"], ["type", "--binary", ":1020.$.A"], ["dump-sector", "1020", "79", "9"]]))
    # flux
    img = mkdisc.surface_dfs(400, 41, title=b"GZFLUX", entries=files(400))
    p = mkflux.image_to_flux(bytes(img), 40, 10, "FM", "hfe", os.path.join(scratch, "f.hfe"))
    items.append(("hfe", p, base_cmds[:8]))
    img = mkdisc.surface_dfs(720, 42, title=b"GZMFM", entries=files(720))
    p = mkflux.image_to_flux(bytes(img), 40, 18, "MFM", "mfm", os.path.join(scratch, "f.mfm"))
    items.append(("mfm", p, base_cmds[:8]))
    # flux whose physical layout is not the plain one: 2:1 interleave and skew (decoded sectors arrive out of numerical order), and
    # recoverable anomalies before the sectors proper (a sector ID with no data record, a data record with a bad CRC, a deleted-data
    # record: each must be passed over, the good copy that follows is the sector)
    il = [0, 5, 1, 6, 2, 7, 3, 8, 4, 9]
    img = mkdisc.surface_dfs(400, 46, title=b"GZILV", entries=files(400))
    p = mkflux.image_to_flux(bytes(img), 40, 10, "FM", "hfe", os.path.join(scratch, "ilv.hfe"), order=il, skew=3)
    items.append(("hfe-interleave", p, base_cmds[:8]))
    il18 = [(2 * i) % 18 if i < 9 else (2 * (i - 9) + 1) for i in range(18)]
    img = mkdisc.surface_dfs(720, 47, title=b"GZILM", entries=files(720))
    p = mkflux.image_to_flux(bytes(img), 40, 18, "MFM", "mfm", os.path.join(scratch, "ilv.mfm"), order=il18, skew=5)
    items.append(("mfm-interleave", p, base_cmds[:8]))
    p = mkflux.image_to_flux(bytes(img), 40, 18, "MFM", "hfe", os.path.join(scratch, "ilvm.hfe"), order=il18)
    items.append(("hfe-mfm-interleave", p, base_cmds[:8]))
    # (the order varies by track so that each anomaly is at some point the one directly followed by a good sector)
    anomalies = lambda t, s: ([("deleted", 1)] if t % 7 == 2 else []) + [[("badcrc", (t + 5) % 10), ("orphan", (t + 3) % 10)],
                                                                        [("orphan", (t + 3) % 10), ("badcrc", (t + 5) % 10)],
                                                                        [("orphan", (t + 3) % 10)]][t % 3] + ([("deleted", 2)] if t % 7 == 4 else [])
    img = mkdisc.surface_dfs(400, 48, title=b"GZANO", entries=files(400))
    p = mkflux.image_to_flux(bytes(img), 40, 10, "FM", "hfe", os.path.join(scratch, "ano.hfe"), prologue=anomalies)
    items.append(("hfe-anomalies", p, base_cmds[:8]))
    img = mkdisc.surface_dfs(720, 49, title=b"GZANM", entries=files(720))
    p = mkflux.image_to_flux(bytes(img), 40, 18, "MFM", "mfm", os.path.join(scratch, "ano.mfm"), prologue=anomalies)
    items.append(("mfm-anomalies", p, base_cmds[:8]))
    p = mkflux.image_to_flux(bytes(img), 40, 18, "MFM", "hfe", os.path.join(scratch, "anom.hfe"), prologue=anomalies)
    items.append(("hfe-mfm-anomalies", p, base_cmds[:8]))
    # a marginal FM image: one clock bit missing inside a data field whose data bits and CRC are fine (whatever the decoder makes of
    # it, it makes the same of it with and without --verbose, compressed or not, with and without assertions)
    img = mkdisc.surface_dfs(400, 52, title=b"GZCLK", entries=files(400))
    tr = []
    for t in range(40):
        secs = {r: bytes(img[(t * 10 + r) * 256:(t * 10 + r + 1) * 256]) for r in range(10)}
        tk = mkflux.build_track("FM", t, 0, secs)
        if t in (0, 7):
            it = [x for x in tk.items if x["kind"] == "data" and x["rec"] == 3][0]
            pos = it["body"] + 2 * 8 * 40            # the clock cell of the first bit of the 41st data byte
            if tk.cells[pos] == 1:
                tk.cells[pos] = 0
        tr.append(mkflux.hfe_side_stream(tk))
    p = os.path.join(scratch, "clk.hfe")
    mkflux.write_hfe(p, [tr], 40, "FM")
    items.append(("hfe-clock-glitch", p, base_cmds[:8]))
    # control characters in names and title (TAB moves the column `cat` believes it is in)
    ctl = [E(b"A\tB", length=10, start=30), E(b"\tX", length=10, start=28), E(b"Y\t", "D", True, 0, 0, 10, 26), E(b"Z", length=10, start=24), E(b"W\x07", length=10, start=22),
           E(b"V", length=10, start=20)]
    d = discs.build("DFS", ctl, scratch, "ctl", nsectors=400, salt=53, title=b"TI\tTLE\x08X")
    items.append(("ctrl-names", d.path, [["cat"], ["--ui", "watford", "cat"], ["--ui", "opus", "cat"], ["info", "#.*"], ["--dir", "D", "cat"], ["show-titles"]]))
    # an HFE file that ends exactly where its last track ends (no 512-byte padding): the reader's last read is short
    raw = open(p, "rb").read() if False else None
    hp = os.path.join(scratch, "nopad.hfe")
    img2 = mkdisc.surface_dfs(400, 44, title=b"NOPAD", entries=files(400))
    mkflux.image_to_flux(bytes(img2), 40, 10, "FM", "hfe", hp, exact_len=True, gaps=dict(gap1=21, gap2=None, gap3=None, gap4=None, sync=None))
    data = open(hp, "rb").read()
    import struct
    off, ln = struct.unpack("<HH", data[512 + 4 * 39:512 + 4 * 39 + 4])
    open(hp, "wb").write(data[: off * 512 + ln - 256])        # side 0 only, and nothing after the last side-0 block
    items.append(("hfe-nopad", hp, base_cmds[:8]))
    # ".gz" occurring earlier in the path must not matter: a directory called mirror.gz and a file called disc.gz.ssd
    gzdir = os.path.join(scratch, "mirror.gz")
    os.makedirs(gzdir, exist_ok=True)
    d = discs.build("DFS", files(570), gzdir, "h600", nsectors=800, total=600, salt=8, ext="ssd", title=b"HINT600")
    items.append(("hint-600-in-gz-dir", d.path, [["cat"], ["info", "#.*"], ["sector-map"], ["type", "--binary", "A"]]))
    d = discs.build("DFS", files(570), scratch, "disc.gz", nsectors=800, total=600, salt=8, ext="ssd", title=b"HINT600")
    items.append(("hint-600-gz-in-name", d.path, [["cat"], ["info", "#.*"], ["sector-map"], ["type", "--binary", "A"]]))
    s0 = mkdisc.surface_dfs(800, 25, title=b"GSIDE0", total=600, entries=files(570))
    s1 = mkdisc.surface_dfs(800, 26, title=b"GSIDE1", total=600, entries=files(560))
    p2 = mkdisc.write(os.path.join(gzdir, "two.dsd"), mkdisc.container_interleaved(s0, s1, 10))
    items.append(("dsd-in-gz-dir", p2, [["cat", "0"], ["cat", "2"], ["type", "--binary", ":2.$.A"], ["show-titles"]]))
    # tiny and odd sizes
    img = mkdisc.surface_dfs(400, 43, title=b"TINY", total=400)
    for nsec in (2, 3, 17):
        p = mkdisc.write(os.path.join(scratch, "tiny%d.ssd" % nsec), bytes(img[: nsec * 256]))
        items.append(("tiny-%d" % nsec, p, [["cat"], ["free"], ["sector-map"]]))
    p = mkdisc.write(os.path.join(scratch, "odd.ssd"), bytes(img) + b"x" * 100)
    items.append(("odd-size", p, [["cat"], ["dump-sector", "0", "39", "9"]]))
    # Gzip.tla RReadBack: an image trimmed inside a sector (e.g. to the end of its last file): the partial last sector, the
    # last whole one and the first one beyond, read through a file and directly
    for r in (1, 80, 255):
        d = discs.build("DFS", [E("LAST", length=600, start=5), E("FIRST", length=300, start=2)], scratch, "trim%d" % r, nsectors=400, salt=45, title=b"TRIM%d" % r)
        data = open(d.path, "rb").read()
        open(d.path, "wb").write(data[: 7 * 256 + r])        # LAST occupies sectors 5, 6 and 7
        items.append(("trimmed-%d" % r, d.path, [["cat"], ["type", "--binary", "LAST"], ["dump", "LAST"], ["type", "--binary", "FIRST"], ["dump-sector", "0", "0", "6"],
                                                  ["dump-sector", "0", "0", "7"], ["dump-sector", "0", "0", "8"], ["free"], ["sector-map"]]))
    return items


def run(chk, tier, seed):
    bdir = common.build("ndebug")
    dfs = common.exe(bdir, "dfs")
    rnd = random.Random(seed)
    quick = tier == "quick"
    chk.rule = ("corpus = images of every container (ssd/sdd incl. hint-sensitive catalogue totals, Watford, Opus, dsd, ddd, mmb, hfe, mfm, tiny "
                "and odd sizes) x gzip variants (levels 0/1/9, FNAME padding placing the compressed size at 0/1/511 mod 512, two members) x "
                "commands; damaged streams = every truncation and every single-bit corruption (quick: one bit per byte; thorough: all eight) of a small .gz; evaluation "
                "= one command compared between X and X.gz, or one damaged stream; non-trivial = command that succeeds on X; distinct by "
                "(image, variant, command) / (damage position)")
    chk.assumptions = ["zlib itself is abstracted to its contract in Gzip.tla", "a corrupted header field that gzip ignores may leave the output identical"]
    r = common.tlc("Gzip", "Gzip_small.cfg" if quick else "Gzip_thorough.cfg", timeout=3000)
    chk.add_tlc("Gzip (all members, truncation at and between member boundaries, termination)", r)
    if r.violated:
        chk.violation("model:" + r.violated, "Gzip.tla: inflate-loop model violates %s\n%s" % (r.violated, "\n".join(r.cex[:40])), dict(spec="Gzip.tla"))
    # (until the repair of b96ff1e the model stopped at the first member and Gzip_all.cfg was the prediction of that defect)
    events = []
    with common.Scratch("c10") as scratch:
        items = corpus(scratch, rnd)
        jobs = []
        for tag, path, cmds in items:
            data = open(path, "rb").read()
            variants = [("l6", gz_bytes(data, 6))]
            if tag == "mmb-full":
                jobs.append((tag, path, cmds, "l6", variants[0][1]))
                continue
            if not quick or tag.startswith(("hint", "dfs-400", "mmb", "hfe", "dsd-in")):
                variants += [("l0", gz_bytes(data, 0)), ("l9", gz_bytes(data, 9)), ("l1-name", gz_bytes(data, 1, fname=b"original-name"))]
            # compressed size modulo the 512-byte input buffer: pad the FNAME field
            base = gz_bytes(data, 6, fname=b"p")
            for want in (0, 1, 511):
                pad = (want - len(base)) % 512
                variants.append(("mod512=%d" % want, gz_bytes(data, 6, fname=b"p" + b"q" * pad)))
            variants.append(("two-members", gz_bytes(data, 6, members=2)))
            # ... and with the first member ending exactly where a 512-byte input buffer ends (nothing of the second member has
            # been read when the first one's end is seen)
            half = len(data) // 2
            m1 = gz_bytes(data[:half], 6, fname=b"p")
            m1 = gz_bytes(data[:half], 6, fname=b"p" + b"q" * ((0 - len(m1)) % 512))
            if len(m1) % 512 == 0 and (not quick or tag.startswith(("dfs-", "mmb", "hfe", "opus", "wdfs"))):
                variants.append(("two-members-aligned", m1 + gz_bytes(data[half:], 6)))
            for vn, gzdata in variants:
                jobs.append((tag, path, cmds, vn, gzdata))

        def do(ij):
            i, (tag, path, cmds, vn, gzdata) = ij
            sub = os.path.join(scratch, "g%d" % i)
            os.makedirs(sub)
            if os.path.basename(os.path.dirname(path)).endswith(".gz"):
                sub = os.path.join(sub, os.path.basename(os.path.dirname(path)))
                os.makedirs(sub)
            gzpath = os.path.join(sub, os.path.basename(path) + ".gz")
            open(gzpath, "wb").write(gzdata)
            plain = os.path.join(sub, os.path.basename(path))
            shutil.copy(path, plain)
            evs = []
            rs = []
            if vn == "l6" and tag in ("dfs-400-ssd", "wdfs", "hfe", "dsd", "mmb"):
                # the same two files named through symbolic links (the link's own name carries the extension)
                ldir = os.path.join(sub, "links")
                os.makedirs(ldir, exist_ok=True)
                lp, lg = os.path.join(ldir, os.path.basename(plain)), os.path.join(ldir, os.path.basename(gzpath))
                os.symlink(plain, lp)
                os.symlink(gzpath, lg)
                for cmd in cmds[:4]:
                    a = common.run([dfs, "--file", lp] + cmd, cwd=sub, timeout=120)
                    b = common.run([dfs, "--file", lg] + cmd, cwd=sub, timeout=120)
                    evs.append(dict(e="same", tag=tag, variant="l6-symlink", cmd=cmd[:2], same=1 if (a.out == b.out and a.rc == b.rc) else 0,
                                    rc=a.rc if a.rc is not None else -9, rc_gz=b.rc if b.rc is not None else -9, clean=1 if b.ok_alphabet() else 0,
                                    err_gz=b.err.decode("latin1")[:200]))
            for ci, cmd in enumerate(cmds):
                if vn in ("l6", "mod512=511") and ci in (0, 5, 8) and tag != "mmb-full" and (not quick or ci != 8):
                    # ReadStack.tla: the same run seen from inside; both files belong to one group, so every drive sector the
                    # bottom layer delivers must carry the same data whether it came from X or from X.gz
                    a, ta = readtrace.record([dfs, "--file", plain] + cmd, sub, "p%d" % ci, ctx=dict(group="%s/%s" % (tag, vn)), cwd=sub, timeout=120)
                    b, tb = readtrace.record([dfs, "--file", gzpath] + cmd, sub, "z%d" % ci, ctx=dict(group="%s/%s" % (tag, vn)), cwd=sub, timeout=120)
                    rs.append(("%s: dfs %s on the uncompressed file (rc=%s)" % (tag, " ".join(cmd), a.rc), ta))
                    rs.append(("%s: dfs %s on the %s .gz (rc=%s)" % (tag, " ".join(cmd), vn, b.rc), tb))
                else:
                    a = common.run([dfs, "--file", plain] + cmd, cwd=sub, timeout=120)
                    b = common.run([dfs, "--file", gzpath] + cmd, cwd=sub, timeout=120)
                evs.append(dict(e="same", tag=tag, variant=vn, cmd=cmd[:2], same=1 if (a.out == b.out and a.rc == b.rc) else 0,
                                rc=a.rc if a.rc is not None else -9, rc_gz=b.rc if b.rc is not None else -9, clean=1 if b.ok_alphabet() else 0,
                                err_gz=b.err.decode("latin1")[:200]))
            shutil.rmtree(os.path.join(scratch, "g%d" % i), ignore_errors=True)
            return evs, rs
        rs_runs = []
        for evs, rs in common.pmap(do, list(enumerate(jobs))):
            events += evs
            rs_runs += rs
        # damaged streams of a small, compressible image
        img = bytearray(400 * 256)
        s0, s1 = mkdisc.catalog_fragment(b"DAMAGE", 3, 1, 400, [mkdisc.entry("Z", length=256, start=2)])
        img[0:256], img[256:512] = s0, s1
        img[512:768] = bytes(range(256))
        good = gz_bytes(bytes(img), 9, fname=b"n")
        ref = os.path.join(scratch, "ref.ssd")
        open(ref, "wb").write(bytes(img))
        refout = {tuple(c): common.run([dfs, "--file", ref] + c) for c in (["cat"], ["type", "--binary", "Z"])}
        dmg = [("cut", k, good[:k]) for k in range(0, len(good))]
        dmg += [("flip", k, good[:k] + bytes([good[k] ^ (1 << (k % 8))]) + good[k + 1:]) for k in range(len(good))]
        if not quick:                                 # thorough: the other seven bits of every byte as well (pos = 1000 * bit + byte)
            dmg += [("flip", 1000 * (b + 1) + k, good[:k] + bytes([good[k] ^ (1 << ((k + b + 1) % 8))]) + good[k + 1:])
                    for k in range(len(good)) for b in range(7)]
        dmg += [("notgz", 0, bytes(img)), ("notgz", 1, b""), ("notgz", 2, b"\x1f\x8b"), ("notgz", 3, good + b"trailing garbage"), ("notgz", 4, good[:10] + bytes(img))]
        if quick:
            dmg = [d for i, d in enumerate(dmg) if d[0] == "notgz" or d[1] < 40 or d[1] > len(good) - 24 or i % 3 == 0]

        def dod(ij):
            i, (kind, k, data) = ij
            sub = os.path.join(scratch, "d%d" % i)
            os.makedirs(sub)
            p = os.path.join(sub, "dmg.ssd.gz")
            open(p, "wb").write(data)
            outcome = "rejected"
            det = ""
            for c, ro in refout.items():
                o = common.run([dfs, "--file", p] + list(c), timeout=60)
                if not o.ok_alphabet():
                    outcome, det = "unclean", o.err.decode("latin1")[-200:]
                    break
                if o.rc == 0:
                    outcome = "identical" if o.out == ro.out else "different"
                    if outcome == "different":
                        break
                elif not o.err.strip():
                    outcome = "silent"
                    break
            shutil.rmtree(sub, ignore_errors=True)
            return dict(e="damaged", kind=kind, pos=k, outcome=outcome, total=len(good), detail=det)
        events += common.pmap(dod, list(enumerate(dmg)))
        for e in events:
            if e["e"] == "same":
                chk.case((e["tag"], e["variant"], tuple(e["cmd"])), nontrivial=e["rc"] == 0)
            else:
                chk.case((e["kind"], e["pos"]))
        chk.sample(events[0])
        chk.sample(next(e for e in events if e["e"] == "damaged" and e["kind"] == "flip"))
        trace = os.path.join(scratch, "trace.ndjson")
        with open(trace, "w") as f:
            for e in events:
                f.write(json.dumps(common.no_nulls(e)) + "\n")
        ok, tr = common.validate_trace("TraceGzip", "TraceGzip.cfg", trace, timeout=1800)
        chk.add_tlc("TraceGzip", tr)
        chk.traces += len(events)
        if not ok or not tr.verdicts:
            raise common.MachineryError("TraceGzip did not consume the whole trace:\n" + tr.output[-3000:])
        for ln in sorted(tr.verdicts[-1]["bad"]):
            e = events[ln - 1]
            if e["e"] == "same":
                kind = "two-members" if e["variant"].startswith("two-members") else ("hint" if e["tag"].startswith("hint") else "other")
                chk.violation("same:%s" % kind, "image %s, gzip variant %s: `%s` differs between X and X.gz (rc %s vs %s, clean=%s) %s" %
                              (e["tag"], e["variant"], " ".join(e["cmd"]), e["rc"], e["rc_gz"], e["clean"], e["err_gz"][:150]), dict(event=e))
            else:
                chk.violation("damaged:%s:%s" % (e["kind"], e["outcome"]), "%s at byte %d of %d of a .gz: outcome %s %s" %
                              (e["kind"], e["pos"], e["total"], e["outcome"], e["detail"]), dict(event=e))
        if rs_runs:
            for desc, tev in rs_runs:
                chk.case(("readstack", desc))
            readtrace.validate(chk, rs_runs, scratch, "readstack")
        chk.extra["corpus_images"] = len(items)
        chk.extra["gz_variants_run"] = len(jobs)
        chk.extra["damaged_streams"] = len(dmg)


def replay(chk, path):
    run(chk, "quick", 1)
