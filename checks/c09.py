"""C09 - bbcbasic_to_text rejects truncated or ill-formed programs and never invents text.
Basic.tla: TLC checks (both framings, every byte string over the framing alphabet) that the reader rejects exactly what
the requirement calls ill-formed and that output only grows by text determined by bytes already consumed; every proper
prefix and every single-byte framing corruption of a set of well-formed programs, and every order of 1..3 (4) input
files drawn from {valid, valid, truncated, corrupt}, are run through the real binary; TraceBasic.tla judges rejection,
the prefix relation against the intact file's listing, and per-file independence."""
import os, itertools, random
import common, basiccheck as bc


def programs(tabs):
    out = []
    for d in ("6502", "ARM", "Z80", "Windows", "PDP11"):
        t = bc.enc_target(1000)
        out.append((d, bc.prog(d, [(10, [0xF1, 34, 72, 105, 34]), (20, [0xE3, 73, 61, 49, 0xB8, 57]), (30, [0xE5] + list(t)), (40, [0xED])])))
        out.append((d, bc.prog(d, [(0, [0xF4, 32, 0x80, 0x81]), (65279, [0xF5, 58, 0xFD, 0xA3])])))
        out.append((d, bc.prog(d, [(10, [0xF1] + [65 + i % 26 for i in range(60)]), (20, [0xF1, 34] + [200 + i % 50 for i in range(40)] + [34]),
                                   (30, [88, 89, 90])])))
    # lines with an empty body (legitimate spacer lines): their terminator / header bytes are framing like any other
    for d in ("6502", "ARM", "Z80", "Windows", "PDP11"):
        out.append((d, bc.prog(d, [(10, [0xDB]), (20, []), (30, [0xF1, 34, 72, 34]), (40, []), (50, [0xE0])])))
    # little-endian programs that begin with lines of length 3 (no body and no terminator, as the BBC BASIC for SDL compiler writes)
    for d in ("Z80", "Windows"):
        body = bytes([3, 10, 0, 3, 20, 0, 3, 30, 0]) + bc.prog(d, [(40, [0xF1, 34, 72, 34]), (50, [0xE0])])
        out.append((d, body))
        out.append((d, bytes([3, 10, 0, 3, 20, 0]) + bc.prog(d, [])))
    return out


def run(chk, tier, seed):
    bdir = common.build("ndebug")
    exe = common.exe(bdir, "bbcbasic_to_text")
    quick = tier == "quick"
    tabs = bc.tables()
    chk.rule = ("15 well-formed programs (5 dialects) x every proper non-empty prefix x (run judged by RProgram, prefix-of-intact-output); "
                "every single-byte corruption of framing bytes with 9 replacement values; all orders of 1..3 (thorough: 1..4) input files "
                "from {valid A, valid B, truncated A, corrupt A}; evaluation = one run; non-trivial = run that is rejected or prints "
                "something; distinct by (dialect, input bytes) / file sequence")
    chk.assumptions = ["a truncation is any proper non-empty prefix; prefixes R classifies as unspecified (e.g. cut exactly after a "
                       "little-endian 3-byte header) are judged for cleanliness and the prefix relation only"]
    bc.model_check(chk, ["Basic_be_frame.cfg", "Basic_le_frame.cfg"])
    progs = programs(tabs)
    events = []
    with common.Scratch("c09") as scratch:
        jobs = []
        for pi, (d, data) in enumerate(progs):
            for cut in range(1, len(data)):
                jobs.append(("cut", pi, d, data, data[:cut]))
            # framing positions
            pos = []
            if bc.is_le(d):
                i = 0
                while i < len(data) and data[i] != 0:
                    pos += [i, i + data[i] - 1]
                    i += data[i]
                pos += [i, i + 1, i + 2]
            else:
                i = 0
                while data[i + 1] != 0xFF:
                    pos += [i, i + 3]
                    i += data[i + 3]
                pos += [i, i + 1]
            for p in pos:
                for v in {0, 1, 2, 3, 4, 12, 13, 255, (data[p] + 1) & 255, (data[p] - 1) & 255} - {data[p]}:
                    if quick and (p + v) % 3:
                        continue
                    jobs.append(("corrupt", pi, d, data, data[:p] + bytes([v]) + data[p + 1:]))
        full_out = {}
        for pi, (d, data) in enumerate(progs):
            o = bc.run_one(exe, d, 7, data, scratch, "full%d" % pi)
            full_out[pi] = o
            events.append(bc.ev_run("full-%d" % pi, d, 7, data, o))

        # where lines begin (a cut there leaves whole lines only): those prefixes are listed both from a file and from a pipe
        def line_starts(d, data):
            st, i = set(), 0
            if bc.is_le(d):
                while i < len(data) and data[i] != 0:
                    st.add(i)
                    i += data[i] if data[i] >= 3 else 3
                st.add(i)
            else:
                while i + 3 < len(data) and data[i + 1] != 0xFF:
                    st.add(i)
                    i += max(4, data[i + 3])
                st.add(i)
            return st
        starts = {pi: line_starts(d, data) for pi, (d, data) in enumerate(progs)}
        jobs += [("cutpipe", pi, d, data, inp) for (kind, pi, d, data, inp) in list(jobs) if kind == "cut" and len(inp) in starts[pi]]

        def do(ij):
            i, (kind, pi, d, data, inp) = ij
            o = bc.run_one(exe, d, 7, inp, scratch, "j%d" % i, stdin=(i % 7 == 0 or kind == "cutpipe"))
            if kind == "cutpipe":
                kind = "cut"
            evs = [bc.ev_run("%s-%d-%d" % (kind, pi, len(inp)), d, 7, inp, o)]
            if kind == "cut":
                evs.append(dict(e="prefix", label="cut-%d-%d" % (pi, len(inp)), dialect=d, listo=7, inp=list(inp), out_cut=list(o.out),
                                out_full=list(full_out[pi].out), rc_cut=o.rc if o.rc is not None else -9, errempty=0 if o.err.strip() else 1))
            return evs
        for evs in common.pmap(do, list(enumerate(jobs))):
            events += evs
        # several input files
        maxn = 3 if quick else 4
        for d, A, B in (("6502", progs[0][1], progs[1][1]), ("Z80", progs[6][1], progs[7][1])):
            # L leaves loops open, M closes loops that were never opened: with LISTO (default 7) the next file must still start at
            # indentation 0
            tab = tabs[bc.CANON.get(d, d)]
            kF, kN, kR = (bc.kwbyte(tab, k) for k in ("FOR", "NEXT", "REPEAT"))
            L = bc.prog(d, [(10, [kF, 73, 58, kF, 74]), (20, [kR]), (30, [0xF1, 65])])
            M = bc.prog(d, [(10, [kN, 58, kN]), (20, [0xF1, 66])])
            files = {"A": A, "B": B, "T": A[: len(A) // 2], "C": A[:5] + bytes([A[5] ^ 0x55]) + A[6:], "U": A[: len(A) - 1], "L": L, "M": M}
            paths = {}
            single = {}
            for k, dat in files.items():
                # (two of the files have names that begin with '-': after another file name, or after --, they are files like any other)
                paths[k] = os.path.join(scratch, ("-multi-%s-%s.bbc" if k in "BT" else "multi-%s-%s.bbc") % (d, k))
                open(paths[k], "wb").write(dat)
                plain = os.path.join(scratch, "single-%s-%s.bbc" % (d, k))          # the reference listing comes from an ordinary name
                open(plain, "wb").write(dat)
                single[k] = common.run([exe, "--dialect", d, plain], stdin=b"")
            seqs = [s for n in range(1, maxn + 1) for s in itertools.product("ABTCULM", repeat=n)]
            if quick:
                seqs = [s for i, s in enumerate(seqs) if len(s) < 3 or i % 3 == 0]

            def dom(s):
                o = common.run([exe, "--dialect", d, "--"] + [os.path.basename(paths[k]) for k in s], cwd=scratch, stdin=b"")
                return dict(e="multi", label="multi-" + "".join(s), dialect=d, listo=7, out=list(o.out), rc=o.rc if o.rc is not None else -9,
                            outs=[list(single[k].out) for k in s], rcs=[single[k].rc for k in s], inp=[ord(c) for c in "".join(s)])
            events += common.pmap(dom, seqs)
        # stale state: a file whose last line ends in each byte value (where a reader that looks ahead would look past the line),
        # and each short input of the reader model, listed alone and after a "poison" file made of one long line of a byte the
        # look-ahead might be looking for.  Basic.tla: buf is per line; R: each file's listing depends only on that file.
        for d in ("6502", "ARM", "Z80", "Windows", "PDP11"):
            victims = {}
            for b in range(0x80, 0x100):
                victims["eol%02x" % b] = bc.prog(d, [(20, [65, b])])
                if not quick or b % 4 == 0:
                    victims["mid%02x" % b] = bc.prog(d, [(20, [b]), (30, [66])])
            poisons = {}
            for v in ([0x98, 0x0D, 0x8D] if quick else [0x98, 0x0D, 0x8D, 0x22, 0xFF, 0x41, 0x00, 0xC6]):
                poisons["p%02x" % v] = bc.prog(d, [(10, [0xF4] + [v] * 240)])
            paths, single = {}, {}
            for k, dat in list(victims.items()) + list(poisons.items()):
                paths[k] = os.path.join(scratch, "st-%s-%s.bbc" % (d, k))
                open(paths[k], "wb").write(dat)
            for k, o in zip(paths, common.pmap(lambda k: common.run([exe, "--dialect", d, paths[k]]), list(paths))):
                single[k] = o

            def dop(pv):
                pk, vk = pv
                o = common.run([exe, "--dialect", d, paths[pk], paths[vk]])
                return dict(e="multi", label="stale-%s-%s" % (pk, vk), dialect=d, listo=7, out=list(o.out), rc=o.rc if o.rc is not None else -9,
                            outs=[list(single[pk].out), list(single[vk].out)], rcs=[single[pk].rc, single[vk].rc], inp=list(victims[vk]))
            events += common.pmap(dop, [(pk, vk) for pk in poisons for vk in victims])
        for e in events:
            if e["e"] == "multi":
                chk.case(("multi", e["dialect"], e["label"]))
            else:
                chk.case((e["e"], e["dialect"], bytes(e["inp"])), nontrivial=(e.get("rc", e.get("rc_cut")) == 1 or len(e.get("out", e.get("out_cut", []))) > 0))
        s0 = next(e for e in events if e["e"] == "run" and e["label"].startswith("cut-0-2"))
        chk.sample(dict(label=s0["label"], dialect=s0["dialect"], inp=bytes(s0["inp"]).hex(), rc=s0["rc"], out=bytes(s0["out"]).decode("latin1")))
        m = next(e for e in events if e["e"] == "multi" and len(e["outs"]) == 3)
        chk.sample(dict(label=m["label"], rc=m["rc"], rcs=m["rcs"], out=bytes(m["out"])[:120].decode("latin1")))

        def describe(e):
            kind = e.get("label", "").split("-")[0]
            le = "le" if bc.is_le(e.get("dialect", "")) else "be"
            return ("%s:%s:%s" % (e["e"], kind, le),
                    "%s %s dialect=%s: rc=%s stderr_empty=%s input=%s printed=%r%s" %
                    (e["e"], e.get("label"), e.get("dialect"), e.get("rc", e.get("rc_cut")), e.get("errempty"), bytes(e.get("inp", [])).hex()[:160],
                     bytes(e.get("out", e.get("out_cut", [])))[-80:], (" intact prints %r" % bytes(e["out_full"])[:120]) if "out_full" in e else ""))
        bc.judge(chk, events, scratch, describe)
        chk.traces += len(events)
        chk.exhaustive = True


def replay(chk, path):
    run(chk, "quick", 1)
