// h_storage: replay attach/policy histories through the repository's StorageConfiguration.
// Input: one history per line, tokens: P (physical policy) | F (first policy) | <k> (attach image with k surfaces)
//        | U<k> (attach image with k surfaces, all unformatted)
//        | r<drive>:<sector> (read one block through the drive's cache; reported in "reads")
// Output per line: JSON {"steps":[{"ok":bool,"map":[[drive,img,side],...]},...],"config":"..."}
#include "storage.h"
#include "dfs_format.h"
#include <cstdio>
#include <iostream>
#include <sstream>
#include <memory>
#include <string>
#include <vector>
#include <unistd.h>

namespace {
struct Dummy : public DFS::AbstractDrive
{
  Dummy(int img, int side) : img_(img), side_(side) {}
  // every sector of a dummy surface says who it is: bytes 0..2 = image, side, sector
  std::optional<DFS::SectorBuffer> read_block(unsigned long sec) override
  {
    ++reads_;
    DFS::SectorBuffer b;
    b.fill(0);
    b[0] = static_cast<DFS::byte>(img_);
    b[1] = static_cast<DFS::byte>(side_);
    b[2] = static_cast<DFS::byte>(sec);
    return b;
  }
  int reads_ = 0;
  DFS::Geometry geometry() const override { return DFS::Geometry(40, 1, 10, DFS::Encoding::FM); }
  std::string description() const override { return "img " + std::to_string(img_) + " side " + std::to_string(side_); }
  int img_, side_;
};
}

int main()
{
  std::set_terminate([]() { fputs("TERMINATE\n", stdout); fflush(stdout); _exit(3); });
  std::string line;
  while (std::getline(std::cin, line))
    {
      DFS::StorageConfiguration sc;
      std::vector<std::unique_ptr<Dummy>> keep;
      DFS::DriveAllocation how = DFS::DriveAllocation::PHYSICAL;
      std::istringstream is(line);
      std::string tok;
      int img = 0;
      std::string out = "{\"steps\":[";
      std::string reads = "";
      bool firststep = true;
      while (is >> tok)
	{
	  if (tok == "P") { how = DFS::DriveAllocation::PHYSICAL; continue; }
	  if (tok == "F") { how = DFS::DriveAllocation::FIRST; continue; }
	  if (tok[0] == 'r')
	    {
	      size_t colon = tok.find(':');
	      unsigned d = static_cast<unsigned>(std::stoul(tok.substr(1, colon - 1)));
	      unsigned long sec = std::stoul(tok.substr(colon + 1));
	      DFS::AbstractDrive* p = 0;
	      std::string err;
	      if (!reads.empty()) reads += ",";
	      if (sc.select_drive(DFS::drive_number(d), &p, err))
		{
		  auto got = p->read_block(sec);
		  if (got)
		    reads += "[" + std::to_string(d) + "," + std::to_string(sec) + "," + std::to_string((*got)[0]) + "," + std::to_string((*got)[1]) + "," + std::to_string((*got)[2]) + "]";
		  else
		    reads += "[" + std::to_string(d) + "," + std::to_string(sec) + ",-1,-1,-1]";
		}
	      else
		reads += "[" + std::to_string(d) + "," + std::to_string(sec) + ",-1,-1,-1]";
	      continue;
	    }
	  bool unformatted = tok[0] == 'U';
	  int k = std::stoi(unformatted ? tok.substr(1) : tok);
	  std::vector<std::optional<DFS::DriveConfig>> sides;
	  for (int s = 0; s < k; ++s)
	    {
	      keep.push_back(std::make_unique<Dummy>(img, s));
	      // as ViewFile::connect_drives does: an unformatted surface is a DriveConfig without a format
	      if (unformatted)
		sides.push_back(DFS::DriveConfig(std::nullopt, keep.back().get()));
	      else
		sides.push_back(DFS::DriveConfig(DFS::Format::DFS, keep.back().get()));
	    }
	  bool ok = sc.connect_drives(sides, how);
	  ++img;
	  if (!firststep) out += ",";
	  firststep = false;
	  out += std::string("{\"ok\":") + (ok ? "true" : "false") + ",\"map\":[";
	  bool f2 = true;
	  for (auto d : sc.get_all_occupied_drive_numbers())
	    {
	      DFS::AbstractDrive* p = 0;
	      std::string err;
	      std::string desc = "unformatted";
	      if (sc.select_drive(d, &p, err))
		desc = p->description();
	      if (!f2) out += ",";
	      f2 = false;
	      out += "[" + std::to_string(d.surface()) + ",\"" + desc + "\"]";
	    }
	  out += "]}";
	}
      out += "],\"reads\":[" + reads + "],\"config\":\"";
      std::ostringstream cfg;
      sc.show_drive_configuration(cfg);
      for (char c : cfg.str())
	{
	  if (c == '\n') out += "\\n";
	  else if (c == '"' || c == '\\') { out += '\\'; out += c; }
	  else out += c;
	}
      out += "\"}";
      puts(out.c_str());
      fflush(stdout);
    }
  return 0;
}
