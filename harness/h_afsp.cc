// h_afsp: drive the repository's AFSPMatcher (info WILDCARD) and file-name parser (type/list/dump NAME).
// Input lines (all strings hex-encoded):
//   P <ctxdrive> <ctxdirhex> <patternhex>      -> "V <drive>" (valid; drive the pattern selects) | "I" (invalid)
//   N <drive> <dirhex> <namehex>               -> "1" | "0"   (against the last P)
//   Q <ctxdrive> <ctxdirhex> <namehex>         -> "OK <drive> <dirhex> <namehex>" | "BAD"  (parse_filename)
//   L <entrydirhex> <entrynamehex>             -> "1" | "0"   (CatalogEntry::has_name against the last successful Q)
#include "afsp.h"
#include "dfscontext.h"
#include "fsp.h"
#include "dfs_catalog.h"
#include <cstdio>
#include <iostream>
#include <sstream>
#include <string>
#include <unistd.h>

static int hexv(char c) { return c <= '9' ? c - '0' : (c | 32) - 'a' + 10; }
static std::string unhex(const std::string& h)
{
  std::string r;
  for (size_t i = 0; i + 1 < h.size(); i += 2) r.push_back(static_cast<char>(hexv(h[i]) * 16 + hexv(h[i + 1])));
  return r;
}
static std::string hex(const std::string& s)
{
  std::string r; char b[4];
  for (unsigned char c : s) { snprintf(b, sizeof b, "%02x", c); r += b; }
  return r;
}

int main()
{
  std::set_terminate([]() { fputs("TERMINATE\n", stdout); fflush(stdout); _exit(3); });
  std::string line;
  std::unique_ptr<DFS::AFSPMatcher> m;
  DFS::ParsedFileName parsed;
  bool have_parsed = false;
  while (std::getline(std::cin, line))
    {
      std::istringstream is(line);
      std::string cmd, a, b, c;
      is >> cmd >> a >> b >> c;
      if (c == "-") c = "";
      if (cmd == "P")
	{
	  DFS::DFSContext ctx(unhex(b)[0], DFS::VolumeSelector(static_cast<unsigned>(std::stoul(a))));
	  std::string err;
	  m = DFS::AFSPMatcher::make_unique(ctx, unhex(c), &err);
	  if (m) printf("V %s\n", m->get_volume().to_string().c_str());
	  else puts("I");
	}
      else if (cmd == "N")
	{
	  if (!m) { puts("0"); continue; }
	  bool r = m->matches(DFS::VolumeSelector(static_cast<unsigned>(std::stoul(a))), unhex(b)[0], unhex(c));
	  puts(r ? "1" : "0");
	}
      else if (cmd == "Q")
	{
	  DFS::DFSContext ctx(unhex(b)[0], DFS::VolumeSelector(static_cast<unsigned>(std::stoul(a))));
	  DFS::ParsedFileName p;
	  std::string err;
	  have_parsed = DFS::parse_filename(ctx, unhex(c), &p, err);
	  if (have_parsed)
	    {
	      parsed = p;
	      printf("OK %s %s %s\n", p.vol.to_string().c_str(), hex(std::string(1, p.dir)).c_str(), hex(p.name).c_str());
	    }
	  else
	    puts("BAD");
	}
      else if (cmd == "L")
	{
	  if (!have_parsed) { puts("0"); continue; }
	  std::string nm = unhex(b);
	  DFS::byte name[8], meta[8] = {0};
	  for (int i = 0; i < 7; ++i) name[i] = i < (int)nm.size() ? static_cast<DFS::byte>(nm[i]) : ' ';
	  name[7] = static_cast<DFS::byte>(unhex(a)[0]);
	  DFS::CatalogEntry e(name, meta);
	  puts(e.has_name(parsed) ? "1" : "0");
	}
      else puts("ERR");
    }
  fflush(stdout);
  return 0;
}
