// h_view: drive the repository's FileView::read_block with arbitrary parameters.
// Input lines:  <skip> <take> <leave> <total> <sector>
// Output:       the position (in sectors) the view asked the underlying media for, -1 if the read was refused
//               without touching the media, or X <what> if an exception escaped.
#include "img_fileio.h"
#include "geometry.h"
#include <cstdio>
#include <iostream>
#include <sstream>
#include <string>
#include <unistd.h>

namespace
{
  class Recorder : public DFS::DataAccess
  {
  public:
    long asked = -1;
    std::optional<DFS::SectorBuffer> read_block(unsigned long lba) override
    {
      asked = static_cast<long>(lba);
      DFS::SectorBuffer b;
      b.fill(0);
      return b;
    }
  };
}

int main()
{
  std::set_terminate([]() { fputs("TERMINATE\n", stdout); fflush(stdout); _exit(3); });
  std::string line;
  while (std::getline(std::cin, line))
    {
      std::istringstream is(line);
      unsigned long skip, take, leave, total, sector;
      if (!(is >> skip >> take >> leave >> total >> sector))
	{
	  puts("X parse");
	  continue;
	}
      Recorder media;
      try
	{
	  DFS::internal::FileView v(media, "h_view", "h_view", DFS::Geometry(80, 1, 10, DFS::Encoding::FM),
				    skip, DFS::sector_count_type(take), DFS::sector_count_type(leave), DFS::sector_count_type(total));
	  auto got = v.read_block(sector);
	  if (got)
	    printf("%ld\n", media.asked);
	  else
	    puts("-1");
	}
      catch (std::exception& e)
	{
	  printf("X %s\n", e.what());
	}
      fflush(stdout);
    }
  return 0;
}
