// h_track: drive the repository's FM/MFM track decoders over bit-streams given on stdin.
// Input lines:  FM <hex bytes>   |  MFM <hex bytes>      (bits LSB-first within each byte, stride 1)
// Output line:  one JSON array of [cyl,head,rec,len,"datahex","crchex"] per input line.
#include "track.h"
#include "verif_trace.h"   // from the repository (verif-hook commit): no-op unless built with -DBEEBTOOLS_VERIF
#include <cstdio>
#include <iostream>
#include <string>
#include <vector>
#include <unistd.h>

static int hexv(char c) { return c <= '9' ? c - '0' : (c | 32) - 'a' + 10; }

int main()
{
  std::set_terminate([]() { fputs("TERMINATE\n", stdout); fflush(stdout); _exit(3); });
  std::string line;
  int lineno = 0;
  while (std::getline(std::cin, line))
    {
      VERIF_EVENT("{\"e\":\"line\",\"n\":%d}", lineno);
      ++lineno;
      size_t sp = line.find(' ');
      if (sp == std::string::npos) { puts("ERR"); continue; }
      std::string enc = line.substr(0, sp);
      std::vector<Track::byte> bytes;
      for (size_t i = sp + 1; i + 1 < line.size(); i += 2)
	bytes.push_back(static_cast<Track::byte>(hexv(line[i]) * 16 + hexv(line[i + 1])));
      std::vector<Track::Sector> secs;
      try
	{
	  Track::BitStream bs(bytes, 0, 1);
	  if (bytes.empty())
	    secs.clear();
	  else
	    secs = (enc == "FM") ? Track::decode_fm_track(bs, false) : Track::decode_mfm_track(bs, false);
	}
      catch (std::exception& e)
	{
	  printf("EXC %s\n", e.what());
	  fflush(stdout);
	  continue;
	}
      std::string out = "[";
      bool first = true;
      for (const auto& s : secs)
	{
	  char buf[64];
	  if (!first) out += ",";
	  first = false;
	  snprintf(buf, sizeof buf, "[%d,%d,%d,%zu,\"", s.address.cylinder, s.address.head, s.address.record, s.data.size());
	  out += buf;
	  for (unsigned char b : s.data) { snprintf(buf, sizeof buf, "%02x", b); out += buf; }
	  snprintf(buf, sizeof buf, "\",\"%02x%02x\"]", s.crc[0], s.crc[1]);
	  out += buf;
	}
      out += "]";
      puts(out.c_str());
      fflush(stdout);
    }
  return 0;
}
